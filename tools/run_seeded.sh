#!/bin/bash
# Apply each seeded change to /repo's working tree, run the property's quick check, record the outcome, undo.
# Usage: tools/run_seeded.sh [ids...]   (default: all directories under /verif/seeded)
export GOFLAGS=-mod=mod GOPROXY=off GOSUMDB=off GOTOOLCHAIN=local
cd /verif
ids="$@"
[ -z "$ids" ] && ids=$(ls seeded | grep -E '^C[0-9]+_[rst]?[0-9]+$')
for id in $ids; do
  d=seeded/$id
  prop=${id%%_*}
  if ! git -C /repo diff --quiet; then echo "$id: /repo working tree not clean, abort"; exit 1; fi
  if ! git -C /repo apply --check $PWD/$d/patch.diff 2>/dev/null; then echo "$id: patch does not apply" | tee $d/result.txt; continue; fi
  git -C /repo apply $PWD/$d/patch.diff
  cp evidence/$prop.json /tmp/evidence_$prop.keep 2>/dev/null   # the committed evidence is the unchanged tree's
  start=$(date +%s)
  out=$(bin/gvc check --property $prop --tier quick 2>&1)
  rc=$?
  end=$(date +%s)
  git -C /repo checkout -- .
  [ -f /tmp/evidence_$prop.keep ] && mv /tmp/evidence_$prop.keep evidence/$prop.json
  {
    echo "seeded change $id, property $prop: exit $rc, $((end-start)) s"
    echo "$out" | grep -E "^VIOLATION|^KNOWN-FINDING|^property " | sed 's/replay=[^ ]* //' | cut -c1-300
  } | tee $d/result.txt
done
