#!/usr/bin/env python3
"""usage: whyvacuous.py <func> <obligation-suffix>: walk the reachability chain of a cover obligation and report
the first assumption that makes the path unsatisfiable."""
import re, subprocess, sys
fn, suffix = sys.argv[1], sys.argv[2]
s = subprocess.run(['/verif/bin/gvc', 'verify', '--func', fn, '--dump'], capture_output=True, text=True).stdout
names = dict(re.findall(r'; OBL (\d+) (\S+)', s))
idx = [n for n, name in names.items() if name.endswith(suffix)][0]
head = s[:s.index('(echo "OBL 0")')]
m = re.search(r'\(echo "OBL %s"\)\n\(push 1\)\n(.*?)\n\(check-sat\)' % idx, s, re.S)
g = re.search(r'\(assert \(?(?:and )?(\S+?)[ )]', m.group(1)).group(1)
lines = head.split('\n')
d = {}
for l in lines:
    mm = re.match(r'\(define-fun (\S+) \(\) Bool (.*)\)$', l)
    if mm:
        d[mm.group(1)] = mm.group(2)
chain = []
cur = g
while cur in d:
    chain.append(cur)
    mm = re.match(r'\(and (\S+) ', d[cur])
    if not mm:
        mm = re.match(r'\(or \(and (\S+) ', d[cur])
    if not mm:
        break
    cur = mm.group(1)
chain.reverse()
for r in chain:
    open('/tmp/wv.smt2', 'w').write(head + "(assert %s)\n(check-sat)\n" % r)
    out = subprocess.run(['z3-new', '-smt2', '-t:3000', '/tmp/wv.smt2'], capture_output=True, text=True).stdout.strip()
    print(r, out)
    if out == 'unsat':
        print(d[r][:3000])
        break
