#!/usr/bin/env python3
"""Regenerate /verif/MANIFEST.json from properties.jsonl and propmeta.json."""
import json, subprocess
props = [json.loads(l) for l in open('/verif/properties.jsonl')]
meta = json.load(open('/verif/propmeta.json'))
setup = "cd /verif/gvc && GOFLAGS=-mod=mod GOPROXY=off GOSUMDB=off GOTOOLCHAIN=local go build -o /verif/bin/gvc ./cmd/gvc"
commits = subprocess.run(['git', '-C', '/repo', 'log', '--format=%h %s'], capture_output=True, text=True).stdout.splitlines()
hook_commits = [c.split()[0] for c in commits if c.split(' ', 1)[1].startswith('verif:')]
claimed = sorted(k for k, v in meta.items() if v.get('claimed'))
m = {
 "version": 1,
 "setup_cmd": setup,
 "hooks": {"guard": "verif",
           "enable": "contracts are comment-only files zz_verif_contracts.go behind //go:build verif; gvc loads /repo's working tree with -tags=verif (nothing is added to the binary)",
           "baseline_off_cmd": "cd /repo && GOFLAGS=-mod=mod GOPROXY=off GOSUMDB=off go test -vet=off -count=1 ./...",
           "source_commits": hook_commits, "add_only": True},
 "engines": [{"name": "gvc", "path": "/verif/gvc", "serves_properties": claimed,
              "kind_free_text": "verification-condition generator over go/ssa of /repo's working tree; contracts are //@ comments in /repo (build tag verif) plus stated stdlib contracts in /verif/contracts; obligations discharged by z3 5.1.0 and cvc5 1.0 (z3 4.8.12 is not used: DESIGN.md section 7); counterexamples replayed with go test -overlay"}],
 "checks": [], "not_applicable": [],
 "notes": "Contract-based deductive verification only (see DESIGN.md). KNOWN_FINDINGS lists repaired defects (fixed:) and open findings."
}
for p in props:
    pid = p['id']
    md = meta.get(pid, {})
    if md.get('claimed'):
        m['checks'].append({
          "property_id": pid,
          "quick_cmd": "/verif/bin/gvc check --property %s --tier quick" % pid,
          "thorough_cmd": "/verif/bin/gvc check --property %s --tier thorough" % pid,
          "evidence_file": "/verif/evidence/%s.json" % pid,
          "replay_cmd_template": "cat {path}",
          "engine": "gvc",
          "level_claimed": {"category": "proof", "text": md['level_text'], "design_ref": "DESIGN.md section 6-" + pid},
          "level_note": md['level_note'],
          "technique": "contract-based deductive verification: contracts (requires/ensures/loop invariants/frames/lemmas) on the real functions, VCs generated from go/ssa, discharged by z3/cvc5"})
    else:
        m['not_applicable'].append({"property_id": pid, "reason": md.get('na_reason', "not claimed yet: the contracts this property needs are not yet discharged by the engine (work in progress; see DESIGN.md)")})
json.dump(m, open('/verif/MANIFEST.json', 'w'), indent=1)
print("claimed:", claimed)
