#!/bin/bash
# usage: mut.sh <file> <sed-expr> <func> : apply mutation in /repo, run gvc verify, revert
set -u
f=$1; expr=$2; fn=$3
cd /repo && cp "$f" /tmp/mut.bak && sed -i "$expr" "$f" && git diff --stat -- "$f" | tail -1
if git diff --quiet -- "$f"; then echo "MUTATION DID NOT APPLY"; fi
cd /verif && timeout 600 bin/gvc verify --func "$fn" 2>&1 | tail -8
cp /tmp/mut.bak "/repo/$f"
