package quickfix

// Demonstration for the finding behind obligations quickfix.doParsing/safety:index:mp.msg.fields#2..#4 and
// quickfix.parseGroup/safety:index:mp.msg.fields (property C09): the parser indexed msg.fields past its end
// when a message had fewer than three fields or did not end with CheckSum (10).

import (
	"bytes"
	"testing"
)

func TestGvcDemoParseNoChecksum(t *testing.T) {
	for _, raw := range []string{
		"8=FIX.4.2\001",
		"8=FIX.4.2\0019=5\001",
		"8=FIX.4.2\0019=5\00135=0\001",
		"8=FIX.4.2\0019=5\00135=0\00149=A\001",
	} {
		func() {
			defer func() {
				if r := recover(); r != nil {
					t.Errorf("ParseMessage(%q) panicked: %v", raw, r)
				}
			}()
			msg := NewMessage()
			if err := ParseMessage(msg, bytes.NewBufferString(raw)); err == nil {
				t.Errorf("ParseMessage(%q) accepted a message without CheckSum", raw)
			}
		}()
	}
}
