package quickfix

// Demonstration for the finding behind obligation quickfix.(*FieldMap).Remove/post:wf (property C10):
// Remove deleted the tag from the lookup map but left it in the order list, so setting the tag again
// appended it a second time and the field was written twice (BodyLength counting it once).
// Run: cd /repo && go test -overlay <json mapping /repo/zz_demo_test.go to this file> -vet=off -run TestGvcDemoRemove -v .

import (
	"bytes"
	"testing"
)

func TestGvcDemoRemove(t *testing.T) {
	m := NewMessage()
	m.Header.SetString(tagBeginString, "FIX.4.2")
	m.Header.SetString(tagMsgType, "D")
	m.Body.SetString(Tag(11), "a")
	m.Body.Remove(Tag(11))
	m.Body.SetString(Tag(11), "b")
	out := m.build()
	if n := bytes.Count(out, []byte("\00111=b\001")) + bytes.Count(out, []byte("\00111=b\00111=b")); bytes.Count(out, []byte("11=b\001")) != 1 {
		t.Fatalf("field 11 written %d times (%d): %q", bytes.Count(out, []byte("11=b\001")), n, out)
	}
}
