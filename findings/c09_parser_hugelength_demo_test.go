package quickfix

// Demonstration for the C09 finding in parser.jumpLength (run in package quickfix through a go test overlay):
// BodyLength 9223372036854775807 makes offset+length wrap negative and ReadMessage slices p.buffer[negative:].

import (
	"strings"
	"testing"
)

func TestGvcParserHugeLengthDemo(t *testing.T) {
	defer func() {
		if r := recover(); r != nil {
			t.Fatalf("parser.ReadMessage panicked on wire input: %v", r)
		}
	}()
	p := newParser(strings.NewReader("8=FIX.4.2\x019=9223372036854775807\x0135=0\x0110=000\x01"))
	_, err := p.ReadMessage()
	t.Logf("err=%v", err)
}
