package quickfix

// Demonstration for the finding behind obligation quickfix.ParseSettings/inl((*SessionSettings).Set)/safety:nil:s
// (property C09): a "key=value" line before any [DEFAULT]/[SESSION] header dereferenced a nil *SessionSettings.

import (
	"strings"
	"testing"
)

func TestGvcDemoSettingsBeforeSection(t *testing.T) {
	defer func() {
		if r := recover(); r != nil {
			t.Fatalf("ParseSettings panicked: %v", r)
		}
	}()
	if _, err := ParseSettings(strings.NewReader("BeginString=FIX.4.2\n[SESSION]\n")); err == nil {
		t.Fatalf("a setting outside any section was accepted")
	}
}
