package quickfix

// Demonstration for finding C04/F9 (run in package quickfix through a go test overlay):
// while a gap recovery is in progress AND a test request is pending (state pendingTimeout{resendState}), a further
// too-high message makes inSession.processReject send a second ResendRequest and start a new stash, because its
// type switch on session.State only recognises a bare resendState.

import (
	"testing"

	"github.com/stretchr/testify/suite"

	"github.com/quickfixgo/quickfix/internal"
)

type gvcPendingResendDemo struct {
	SessionSuiteRig
}

func TestGvcPendingResendDemo(t *testing.T) { suite.Run(t, new(gvcPendingResendDemo)) }

func (s *gvcPendingResendDemo) SetupTest() {
	s.Init()
	s.session.State = inSession{}
}

func (s *gvcPendingResendDemo) TestDuplicateResendRequest() {
	// expected 1, receive 2: gap detected, one ResendRequest, message 2 kept
	s.MessageFactory.SetNextSeqNum(2)
	s.MockApp.On("ToAdmin")
	s.fixMsgIn(s.session, s.NewOrderSingle())
	s.State(resendState{})
	nReq := 0
	count := func() {
		if s.MockApp.lastToAdmin != nil {
			if mt, _ := s.MockApp.lastToAdmin.Header.GetBytes(tagMsgType); string(mt) == "2" {
				nReq++
			}
			s.MockApp.lastToAdmin = nil
		}
	}
	count()
	s.Equal(1, nReq)

	// the peer is silent for 1.2 heartbeat intervals: a TestRequest goes out, recovery state is wrapped
	s.session.Timeout(s.session, internal.PeerTimeout)
	_, wrapped := s.session.State.(pendingTimeout)
	s.True(wrapped, "state should be pendingTimeout{resendState}")
	s.MockApp.lastToAdmin = nil

	// message 3 arrives (still too high): recovery is in progress, no further ResendRequest may be sent
	s.fixMsgIn(s.session, s.NewOrderSingle())
	count()
	s.T().Logf("ResendRequests sent after the first: %d; state now %v", nReq-1, s.session.State)
	if rs, ok := s.session.State.(resendState); ok {
		_, kept2 := rs.messageStash[2]
		s.T().Logf("message 2 still kept: %v (stash size %d)", kept2, len(rs.messageStash))
		if nReq > 1 || !kept2 {
			s.T().Errorf("C04 violated: duplicate ResendRequest=%v, early message 2 kept=%v", nReq > 1, kept2)
		}
	}
}
