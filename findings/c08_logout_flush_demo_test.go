package quickfix

// Demonstration for finding C08/F10 (run in package quickfix through a go test overlay):
// after the engine has sent its Logout (logoutState), an application message submitted with Send is queued and not
// transmitted (sendInReplyTo sees IsLoggedOn()==false). When the peer then sends a ResendRequest, the replay goes
// through EnqueueBytesAndSend -> sendQueued, which flushes the whole queue: the queued first-time application
// message is transmitted after the Logout.

import (
	"bytes"
	"testing"

	"github.com/stretchr/testify/suite"
)

type gvcLogoutFlushDemo struct {
	SessionSuiteRig
}

func TestGvcLogoutFlushDemo(t *testing.T) { suite.Run(t, new(gvcLogoutFlushDemo)) }

func (s *gvcLogoutFlushDemo) SetupTest() {
	s.Init()
	s.session.State = logoutState{}
}

func (s *gvcLogoutFlushDemo) TestQueuedAppMessageFlushedAfterLogout() {
	// an application message submitted while the engine waits for the peer's Logout: queued, not sent
	s.MockApp.On("ToApp").Return(nil)
	s.Require().Nil(s.session.queueForSend(s.NewOrderSingle()))
	s.NoMessageSent()
	queued := len(s.session.toSend)
	s.Equal(1, queued)

	// the peer asks for a replay of 1..infinity
	s.MockApp.On("FromAdmin").Return(nil)
	s.MockApp.On("ToAdmin")
	s.MockApp.On("OnLogout")
	s.fixMsgIn(s.session, s.ResendRequest(1))

	// what reached the connection?
	appOnWire := 0
	for {
		select {
		case b := <-s.Receiver.sendChannel:
			if bytes.Contains(b, []byte("\x0135=D\x01")) && !bytes.Contains(b, []byte("\x0143=Y\x01")) {
				appOnWire++
			}
			continue
		default:
		}
		break
	}
	s.T().Logf("first-time application messages transmitted after the engine's Logout: %d", appOnWire)
	if appOnWire > 0 {
		s.T().Errorf("C08 violated: a first-time application message was transmitted in logout state")
	}
}
