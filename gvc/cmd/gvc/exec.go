package main

import (
	"fmt"
	"go/constant"
	"go/token"
	"go/types"
	"os"
	"sort"
	"strings"

	"golang.org/x/tools/go/ssa"
)

const allocSort = "(Array Int Bool)"

// ---- value access -------------------------------------------------------------------

func (f *frame) val(v ssa.Value) Val {
	if x, ok := f.vals[v]; ok {
		return x
	}
	vc := f.vc
	switch c := v.(type) {
	case *ssa.Const:
		return Val{t: f.constTerm(c)}
	case *ssa.Global:
		g := c
		et := deref(g.Type())
		if _, ok := isStruct(et); ok {
			n := "gref." + g.Pkg.Pkg.Name() + "." + sanitize(g.Name())
			if !vc.declared[n] {
				vc.declared[n] = true
				vc.emit(fmt.Sprintf("(declare-const %s Int)", n))
				vc.emit(fmt.Sprintf("(assert (> %s 0))", n))
			}
			return Val{t: n}
		}
		return Val{addr: &Addr{kind: aGlobal, g: g}}
	case *ssa.Function:
		return Val{t: vc.funcID(c.String())}
	case *ssa.Builtin:
		return Val{t: "0"}
	}
	vc.unsupported("value %s (%T) used before definition in %s", v.Name(), v, f.fn.Name())
	return Val{}
}

func (f *frame) term(v ssa.Value) string {
	x := f.val(v)
	if x.t == "" {
		if x.addr != nil {
			f.vc.unsupported("address of scalar cell escapes: %s in %s (%s)", v.Name(), f.fn.Name(), f.posStr(v.Pos()))
		}
		f.vc.unsupported("tuple value used as scalar: %s", v.Name())
	}
	return x.t
}

func (f *frame) constTerm(c *ssa.Const) string {
	vc := f.vc
	t := c.Type()
	if c.Value == nil {
		return vc.zeroOf(t)
	}
	switch c.Value.Kind() {
	case constant.Bool:
		if constant.BoolVal(c.Value) {
			return "true"
		}
		return "false"
	case constant.String:
		return vc.strLit(constant.StringVal(c.Value))
	case constant.Int:
		if isFloat(t) {
			s, _ := constInt(c.Value)
			return s + ".0"
		}
		s, ok := constInt(c.Value)
		if !ok {
			vc.unsupported("constant %s", c.Value)
		}
		return s
	case constant.Float:
		if isFloat(t) {
			fl, _ := constant.Float64Val(c.Value)
			r := fmt.Sprintf("%f", fl)
			if strings.HasPrefix(r, "-") {
				return "(- " + r[1:] + ")"
			}
			return r
		}
		if i := constant.ToInt(c.Value); i.Kind() == constant.Int {
			s, _ := constInt(i)
			return s
		}
	}
	vc.unsupported("constant %s of type %s", c.Value, t)
	return ""
}

// ---- memory -----------------------------------------------------------------------------

// leaf enumerates scalar leaves of struct type st located at ref.
func (f *frame) loadStruct(ref string, t types.Type, st *hstate) string {
	vc := f.vc
	s := t.Underlying().(*types.Struct)
	srt := vc.structSort(t)
	if s.NumFields() == 0 {
		return "mk." + srt
	}
	var fs []string
	for i := 0; i < s.NumFields(); i++ {
		ft := s.Field(i).Type()
		if _, ok := isStruct(ft); ok {
			fs = append(fs, f.loadStruct(sx(vc.declSubRef(t, i), ref), ft, st))
		} else {
			fs = append(fs, sx("select", vc.lookup(st, fieldHeapName(t, i), "(Array Int "+vc.sortOf(ft)+")"), ref))
		}
	}
	return sx("mk."+srt, fs...)
}

func (f *frame) storeStruct(ref string, t types.Type, val string, st *hstate) *hstate {
	vc := f.vc
	s := t.Underlying().(*types.Struct)
	for i := 0; i < s.NumFields(); i++ {
		ft := s.Field(i).Type()
		fv := sx(vc.structSel(t, i), val)
		if _, ok := isStruct(ft); ok {
			st = f.storeStruct(sx(vc.declSubRef(t, i), ref), ft, fv, st)
		} else {
			hn := fieldHeapName(t, i)
			srt := "(Array Int " + vc.sortOf(ft) + ")"
			st = vc.store(st, hn, srt, sx("store", vc.lookup(st, hn, srt), ref, fv))
		}
	}
	return st
}

func (f *frame) zeroStruct(ref string, t types.Type, st *hstate) *hstate {
	vc := f.vc
	s := t.Underlying().(*types.Struct)
	for i := 0; i < s.NumFields(); i++ {
		ft := s.Field(i).Type()
		if _, ok := isStruct(ft); ok {
			st = f.zeroStruct(sx(vc.declSubRef(t, i), ref), ft, st)
		} else {
			hn := fieldHeapName(t, i)
			srt := "(Array Int " + vc.sortOf(ft) + ")"
			st = vc.store(st, hn, srt, sx("store", vc.lookup(st, hn, srt), ref, vc.zeroOf(ft)))
		}
	}
	return st
}

// loadAt loads a value of type t through pointer value p.
func (f *frame) loadAt(p Val, t types.Type, st *hstate) string {
	vc := f.vc
	if _, ok := isStruct(t); ok {
		if p.t == "" {
			vc.unsupported("struct load through non-ref pointer")
		}
		return f.loadStruct(p.t, t, st)
	}
	srt := vc.sortOf(t)
	if a := p.addr; a != nil {
		switch a.kind {
		case aField:
			return sx("select", vc.lookup(st, fieldHeapName(a.st, a.field), "(Array Int "+srt+")"), a.base)
		case aElem:
			if a.sl != "" {
				return sx(vc.eltFn(srt), vc.lookup(st, elemHeapName(a.elemT), "(Array Int (Array Int "+srt+"))"), a.sl, a.rel)
			}
			return sx("select", sx("select", vc.lookup(st, elemHeapName(a.elemT), "(Array Int (Array Int "+srt+"))"), a.base), a.idx)
		case aGlobal:
			return vc.lookup(st, globalHeapName(a.g), srt)
		}
	}
	if _, ok := t.Underlying().(*types.Array); ok {
		vc.unsupported("load of array value")
	}
	return sx("select", vc.lookup(st, ptrHeapName(t), "(Array Int "+srt+")"), p.t)
}

func (f *frame) storeAt(p Val, t types.Type, val string, st *hstate) *hstate {
	vc := f.vc
	if _, ok := isStruct(t); ok {
		if p.t == "" {
			vc.unsupported("struct store through non-ref pointer")
		}
		return f.storeStruct(p.t, t, val, st)
	}
	srt := vc.sortOf(t)
	if a := p.addr; a != nil {
		switch a.kind {
		case aField:
			hn := fieldHeapName(a.st, a.field)
			hs := "(Array Int " + srt + ")"
			return vc.store(st, hn, hs, sx("store", vc.lookup(st, hn, hs), a.base, val))
		case aElem:
			hn := elemHeapName(a.elemT)
			hs := "(Array Int (Array Int " + srt + "))"
			h := vc.lookup(st, hn, hs)
			return vc.store(st, hn, hs, sx("store", h, a.base, sx("store", sx("select", h, a.base), a.idx, val)))
		case aGlobal:
			return vc.store(st, globalHeapName(a.g), srt, val)
		}
	}
	if _, ok := t.Underlying().(*types.Array); ok {
		vc.unsupported("store of array value")
	}
	hn := ptrHeapName(t)
	hs := "(Array Int " + srt + ")"
	return vc.store(st, hn, hs, sx("store", vc.lookup(st, hn, hs), p.t, val))
}

// havocTo replaces the current state by a havoc of `from` and keeps the facts every havoc preserves:
// allocation only grows, closed channels stay closed.
func (f *frame) havocTo(from *hstate, names map[string]bool) {
	vc := f.vc
	// the two heaps of a map type change together (the canonical-form axiom pairs the versions of one state)
	var add []string
	for n := range names {
		if strings.HasPrefix(n, "MH.") && !names["MV."+n[3:]] {
			add = append(add, "MV."+n[3:])
		}
		if strings.HasPrefix(n, "MV.") && !names["MH."+n[3:]] {
			add = append(add, "MH."+n[3:])
		}
	}
	if len(add) > 0 {
		nn := map[string]bool{}
		for n := range names {
			nn[n] = true
		}
		for _, n := range add {
			if _, ok := vc.sortForHeap(n); ok {
				nn[n] = true
			}
		}
		names = nn
	}
	f.st = vc.havoc(from, names)
	if names["*"] {
		vc.didHavocAll = true
		if os.Getenv("GVC_DEBUG") != "" {
			fmt.Fprintf(os.Stderr, "havoc-all in %s at block %v\n", funcDisplay(f.fn), f.cur)
		}
	}
	if names["*"] || names["alloc"] {
		a0 := vc.lookup(from, "alloc", allocSort)
		a1 := vc.lookup(f.st, "alloc", allocSort)
		if a0 != a1 {
			f.assume(fmt.Sprintf("(forall ((r Int)) (! (=> (select %s r) (select %s r)) :pattern ((select %s r))))", a0, a1, a1))
			// the same relative to function entry (transitivity, stated directly: frame proofs relative to entry then need
			// one instantiation instead of one per intermediate allocation state)
			if vc.entry != nil {
				if ae := vc.lookup(vc.entry, "alloc", allocSort); ae != a0 && ae != a1 {
					f.assume(fmt.Sprintf("(forall ((r Int)) (! (=> (select %s r) (select %s r)) :pattern ((select %s r))))", ae, a1, a1))
				}
			}
			// ground instances for the references the proof keeps coming back to (parameters, results of calls):
			// they spare the solver the chain of instantiations through every intermediate allocation state
			for _, r := range vc.pinned {
				f.assume(implies(sx("select", a0, r), sx("select", a1, r)))
			}
		}
	}
}

// assumeFreshOnly: for every heap in mods that is not in nonFresh, objects allocated in state pre are unchanged.
func (f *frame) assumeFreshOnly(pre, post *hstate, mods, nonFresh map[string]bool) {
	vc := f.vc
	allocPre := vc.lookup(pre, "alloc", allocSort)
	var hs []string
	for h := range mods {
		if !nonFresh[h] && h != "alloc" && h != "*" {
			hs = append(hs, h)
		}
	}
	sort.Strings(hs)
	for _, h := range hs {
		srt, ok := vc.sortForHeap(h)
		if !ok || !strings.HasPrefix(srt, "(Array Int") {
			continue
		}
		hp := vc.lookup(pre, h, srt)
		hq := vc.lookup(post, h, srt)
		if hp == hq {
			continue
		}
		f.assume(fmt.Sprintf("(forall ((r Int)) (! (=> (select %s (root r)) (= (select %s r) (select %s r))) :pattern ((select %s r))))", allocPre, hq, hp, hq))
	}
}

// allocRef allocates a fresh base reference.
func (f *frame) allocRef(hint string) string {
	vc := f.vc
	r := vc.fresh(hint, "Int")
	al := vc.lookup(f.st, "alloc", allocSort)
	f.assume(and(sx(">", r, "0"), not(sx("select", al, r))))
	f.st = vc.store(f.st, "alloc", allocSort, sx("store", al, r, "true"))
	return r
}

// elemTypeOfSliceLike gives the element type for slices and pointers to arrays.
func elemTypeOf(t types.Type) types.Type {
	switch u := t.Underlying().(type) {
	case *types.Slice:
		return u.Elem()
	case *types.Array:
		return u.Elem()
	case *types.Pointer:
		if a, ok := u.Elem().Underlying().(*types.Array); ok {
			return a.Elem()
		}
	case *types.Basic:
		if u.Info()&types.IsString != 0 {
			return types.Typ[types.Byte]
		}
	}
	return nil
}

// zeroRange sets elements [lo,hi) of array arr (element type et) to zero, everything else unchanged.
func (f *frame) zeroArray(arr string, et types.Type) {
	vc := f.vc
	if s, ok := isStruct(et); ok {
		_ = s
		f.zeroStructElems(arr, et, et, func(r string) string { return r })
		return
	}
	hn := elemHeapName(et)
	srt := vc.sortOf(et)
	hs := "(Array Int (Array Int " + srt + "))"
	h := vc.lookup(f.st, hn, hs)
	f.st = vc.store(f.st, hn, hs, sx("store", h, arr, fmt.Sprintf("((as const (Array Int %s)) %s)", srt, vc.zeroOf(et))))
}

// zeroStructElems havocs each leaf heap of struct type t and constrains it: refs that are elements
// of arr are zero, all others unchanged.
func (f *frame) zeroStructElems(arr string, elemT, t types.Type, path func(string) string) {
	vc := f.vc
	efn := vc.declElemRef(elemT)
	s := t.Underlying().(*types.Struct)
	for i := 0; i < s.NumFields(); i++ {
		ft := s.Field(i).Type()
		if _, ok := isStruct(ft); ok {
			sub := vc.declSubRef(t, i)
			f.zeroStructElems(arr, elemT, ft, func(r string) string { return sx(sub, path(r)) })
			continue
		}
		hn := fieldHeapName(t, i)
		srt := vc.sortOf(ft)
		hs := "(Array Int " + srt + ")"
		old := vc.lookup(f.st, hn, hs)
		nw := vc.fresh(hn, hs)
		// For every index i: new[path(elem(arr,i))] = zero. For every r that is not such an element: unchanged.
		// "is such an element" is expressed through a ghost marker function to keep the axiom pattern-friendly.
		mark := vc.freshName("mk." + hn)
		vc.emit(fmt.Sprintf("(declare-fun %s (Int) Bool)", mark))
		vc.emit(fmt.Sprintf("(assert (forall ((i Int)) (! (%s %s) :pattern (%s))))", mark, path(sx(efn, arr, "i")), path(sx(efn, arr, "i"))))
		vc.emit(fmt.Sprintf("(assert (forall ((r Int)) (! (= (select %s r) (ite (%s r) %s (select %s r))) :pattern ((select %s r)))))", nw, mark, vc.zeroOf(ft), old, nw))
		// marker implies root is arr (so unrelated refs are provably unmarked)
		vc.emit(fmt.Sprintf("(assert (forall ((r Int)) (! (=> (%s r) (= (root r) %s)) :pattern ((%s r)))))", mark, arr, mark))
		f.st = vc.store(f.st, hn, hs, nw)
	}
}

// ---- slices ---------------------------------------------------------------------------------

func sArr(s string) string { return sx("s-arr", s) }
func sOff(s string) string { return sx("s-off", s) }
func sLen(s string) string { return sx("s-len", s) }
func sCap(s string) string { return sx("s-cap", s) }

func (f *frame) sliceElem(s, i string, et types.Type, st *hstate) string {
	vc := f.vc
	idx := sx("+", sOff(s), i)
	if _, ok := isStruct(et); ok {
		return f.loadStruct(sx(vc.declElemRef(et), sArr(s), idx), et, st)
	}
	srt := vc.sortOf(et)
	return sx(vc.eltFn(srt), vc.lookup(st, elemHeapName(et), "(Array Int (Array Int "+srt+"))"), s, i)
}

// copyRange: dst array dArr positions [dLo, dLo+n) := src array sArr positions [sLo, sLo+n) read in state src.
func (f *frame) copyRange(et types.Type, dArr, dLo, sArrT, sLo, n string, srcSt *hstate) {
	vc := f.vc
	if _, ok := isStruct(et); ok {
		f.copyStructRange(et, et, dArr, dLo, sArrT, sLo, n, srcSt, func(r string) string { return r })
		return
	}
	hn := elemHeapName(et)
	srt := vc.sortOf(et)
	hs := "(Array Int (Array Int " + srt + "))"
	hOld := vc.lookup(f.st, hn, hs)
	hSrc := vc.lookup(srcSt, hn, hs)
	row := vc.fresh("row", "(Array Int "+srt+")")
	vc.rowAxiom(row, func(i string) string {
		return fmt.Sprintf("(ite (and (<= %s %s) (< %s (+ %s %s))) (select (select %s %s) (+ %s (- %s %s))) (select (select %s %s) %s))", dLo, i, i, dLo, n, hSrc, sArrT, sLo, i, dLo, hOld, dArr, i)
	})
	f.st = vc.store(f.st, hn, hs, sx("store", hOld, dArr, row))
}

func (f *frame) copyStructRange(elemT, t types.Type, dArr, dLo, sArrT, sLo, n string, srcSt *hstate, path func(string) string) {
	vc := f.vc
	efn := vc.declElemRef(elemT)
	s := t.Underlying().(*types.Struct)
	for i := 0; i < s.NumFields(); i++ {
		ft := s.Field(i).Type()
		if _, ok := isStruct(ft); ok {
			sub := vc.declSubRef(t, i)
			f.copyStructRange(elemT, ft, dArr, dLo, sArrT, sLo, n, srcSt, func(r string) string { return sx(sub, path(r)) })
			continue
		}
		hn := fieldHeapName(t, i)
		srt := vc.sortOf(ft)
		hs := "(Array Int " + srt + ")"
		old := vc.lookup(f.st, hn, hs)
		src := vc.lookup(srcSt, hn, hs)
		nw := vc.fresh(hn, hs)
		mark := vc.freshName("mk." + hn)
		midx := vc.freshName("mi." + hn)
		vc.emit(fmt.Sprintf("(declare-fun %s (Int) Bool)", mark))
		vc.emit(fmt.Sprintf("(declare-fun %s (Int) Int)", midx))
		el := path(sx(efn, dArr, "i"))
		vc.emit(fmt.Sprintf("(assert (forall ((i Int)) (! (and (= (%s %s) (and (<= %s i) (< i (+ %s %s)))) (= (%s %s) i)) :pattern (%s))))", mark, el, dLo, dLo, n, midx, el, el))
		vc.emit(fmt.Sprintf("(assert (forall ((r Int)) (! (=> (%s r) (and (= (root r) %s) (= r %s))) :pattern ((%s r)))))", mark, dArr, path(sx(efn, dArr, sx(midx, "r"))), mark))
		vc.emit(fmt.Sprintf("(assert (forall ((r Int)) (! (= (select %s r) (ite (%s r) (select %s %s) (select %s r))) :pattern ((select %s r)))))",
			nw, mark, src, path(sx(efn, sArrT, sx("+", sLo, sx("-", sx(midx, "r"), dLo)))), old, nw))
		f.st = vc.store(f.st, hn, hs, nw)
	}
}

// ---- running a function body -----------------------------------------------------------------

func (f *frame) edgeCond(from *ssa.BasicBlock, succIdx int) string {
	R := f.blkR[from]
	last := from.Instrs[len(from.Instrs)-1]
	if iff, ok := last.(*ssa.If); ok {
		c := f.term(iff.Cond)
		if succIdx == 0 {
			return and(R, c)
		}
		return and(R, not(c))
	}
	return R
}

func succIndex(from, to *ssa.BasicBlock, nth int) int {
	// index of the nth occurrence of `to` in from.Succs
	k := 0
	for i, s := range from.Succs {
		if s == to {
			if k == nth {
				return i
			}
			k++
		}
	}
	return -1
}

// predEdges returns for each pred index of b the edge condition (handles duplicate edges).
func (f *frame) predEdge(b *ssa.BasicBlock, predIdx int) string {
	p := b.Preds[predIdx]
	// count which occurrence this is among preds equal to p
	nth := 0
	for i := 0; i < predIdx; i++ {
		if b.Preds[i] == p {
			nth++
		}
	}
	si := succIndex(p, b, nth)
	return f.edgeCond(p, si)
}

// rangeIterAt finds the map range iterator of the loop whose header is b.
func (f *frame) rangeIterAt(b *ssa.BasicBlock) string {
	li := f.loops[b]
	if li == nil {
		return ""
	}
	for blk := range li.blocks {
		for _, ins := range blk.Instrs {
			if nx, ok := ins.(*ssa.Next); ok {
				if rng, ok := nx.Iter.(*ssa.Range); ok && !li.blocks[rng.Block()] {
					if it, ok := f.iters[rng]; ok {
						return it
					}
				}
			}
		}
	}
	return ""
}

func (f *frame) run() {
	vc := f.vc
	fn := f.fn
	if f.iters == nil {
		f.iters = map[*ssa.Range]string{}
	}
	if len(fn.Blocks) == 0 {
		vc.unsupported("function %s has no body", fn.Name())
	}
	var loopList []*loopInfo
	f.loops, loopList = findLoops(fn)
	for _, li := range loopList {
		if f.contract != nil {
			li.spec = f.contract.Loops[li.ordinal]
		}
	}
	if f.contract != nil && f.top {
		for ord := range f.contract.Loops {
			if ord < 1 || ord > len(loopList) {
				o := f.obligeAt("true", "stale", fmt.Sprintf("loop%d", ord), nil, "false", fn.Pos())
				o.Src = fmt.Sprintf("the contract has clauses for loop %d but the function has %d loop(s): contract stale", ord, len(loopList))
			}
		}
	}
	f.blkR = map[*ssa.BasicBlock]string{}
	f.blkSt = map[*ssa.BasicBlock]*hstate{}
	f.blkRin = map[*ssa.BasicBlock]string{}
	for _, b := range rpo(fn) {
		if fn.Recover != nil && b == fn.Recover {
			continue
		}
		f.cur = b
		li := f.loops[b]
		if b.Index == 0 {
			f.R = f.R0
			f.st = f.entry
		} else {
			var conds []string
			var js []hjoin
			var predIdx []int
			for i, p := range b.Preds {
				if li != nil && li.blocks[p] {
					continue // back edge
				}
				if _, done := f.blkR[p]; !done {
					continue // unreachable pred (e.g. recover block)
				}
				c := f.predEdge(b, i)
				conds = append(conds, c)
				js = append(js, hjoin{c, f.blkSt[p]})
				predIdx = append(predIdx, i)
			}
			if len(conds) == 0 {
				continue
			}
			f.R = vc.define("R.b"+fmt.Sprint(b.Index), "Bool", or(conds...))
			f.st = vc.join(js)
			var dom *hstate
			if d := b.Idom(); d != nil {
				dom = f.blkSt[d]
			}
			f.afterJoin(len(js), dom)
			if li != nil {
				f.enterLoop(li, predIdx, conds)
			} else {
				// phis
				for _, ins := range b.Instrs {
					phi, ok := ins.(*ssa.Phi)
					if !ok {
						break
					}
					f.vals[phi] = f.joinVals(phi, predIdx, conds)
				}
			}
		}
		f.blkRin[b] = f.R
		if f.top && b.Index != 0 && li == nil && len(b.Preds) > 1 && len(b.Instrs) > 0 && os.Getenv("GVC_JOINSTEP") != "" {
			// a join of several paths: re-establish the frame relative to entry for the joined state (one cheap case per path)
			f.stepFrames(b.Instrs[0].Pos())
		}
		for _, ins := range b.Instrs {
			if _, ok := ins.(*ssa.Phi); ok {
				continue
			}
			f.instr(ins)
		}
		f.blkR[b] = f.R
		f.blkSt[b] = f.st
		// back edges out of this block
		for si, s := range b.Succs {
			if l2 := f.loops[s]; l2 != nil && l2.blocks[b] && s.Dominates(b) {
				f.backEdge(l2, b, si)
			}
		}
	}
}

func (f *frame) joinVals(phi *ssa.Phi, predIdx []int, conds []string) Val {
	var vs []Val
	for _, i := range predIdx {
		vs = append(vs, f.val(phi.Edges[i]))
	}
	return f.mergeVals(phi.Name(), phi.Type(), vs, conds)
}

func (f *frame) mergeVals(hint string, t types.Type, vs []Val, conds []string) Val {
	vc := f.vc
	if len(vs) == 0 {
		vc.unsupported("merge of zero values")
	}
	if len(vs[0].elems) > 0 {
		tup := t.(*types.Tuple)
		out := Val{}
		for k := range vs[0].elems {
			var es []Val
			for _, v := range vs {
				es = append(es, v.elems[k])
			}
			out.elems = append(out.elems, f.mergeVals(hint, tup.At(k).Type(), es, conds))
		}
		return out
	}
	for _, v := range vs {
		if v.t == "" {
			vc.unsupported("phi over cell addresses (%s)", hint)
		}
	}
	e := vs[len(vs)-1].t
	for i := len(vs) - 2; i >= 0; i-- {
		e = ite(conds[i], vs[i].t, e)
	}
	return Val{t: vc.define(hint, vc.sortOf(t), e)}
}

// modsInLoop computes the heap names possibly modified inside the loop.
func (f *frame) modsInLoop(li *loopInfo) map[string]bool {
	mods := map[string]bool{}
	for b := range li.blocks {
		for _, ins := range b.Instrs {
			f.vc.eng.instrEffects(ins, mods, f.fn)
		}
	}
	return mods
}

func (f *frame) enterLoop(li *loopInfo, predIdx []int, conds []string) {
	vc := f.vc
	b := li.header
	li.entrySt = f.st
	// init obligations: invariants with the entry values
	entryVals := map[*ssa.Phi]string{}
	li.entryVals = entryVals
	var phis []*ssa.Phi
	for _, ins := range b.Instrs {
		phi, ok := ins.(*ssa.Phi)
		if !ok {
			break
		}
		phis = append(phis, phi)
		v := f.joinVals(phi, predIdx, conds)
		entryVals[phi] = v.t
	}
	invs := f.loopInvariants(li, phis)
	for _, inv := range invs {
		c := inv.at(f.st, entryVals)
		f.obligeAt(f.R, "inv-init", inv.label, inv.props, c, b.Instrs[0].Pos())
	}
	// havoc
	mods := f.modsInLoop(li)
	pre := f.st
	f.havocTo(f.st, mods)
	f.st.loop = true // the loop body may write the function's own locals: no stack-object frame for this havoc
	li.headSt = f.st
	// heaps the loop writes only at objects it allocates itself: everything allocated before the loop is unchanged
	if !mods["*"] {
		nonFresh := map[string]bool{}
		inLoop := func(ins ssa.Instruction) bool { return li.blocks[ins.Block()] }
		for blk := range li.blocks {
			for _, ins := range blk.Instrs {
				vc.eng.instrNonFresh(ins, nonFresh, inLoop)
			}
		}
		if !nonFresh["*"] {
			f.assumeFreshOnly(pre, f.st, mods, nonFresh)
		}
	}
	// loop-level modifies clause: objects not listed (and allocated before the loop) keep their contents
	if li.spec != nil && li.spec.HasMod && !mods["*"] {
		env := f.loopEnv(li, pre, entryVals)
		for _, fm := range f.frameCondsItems(li.spec.Modifies, env, pre, f.st, mods) {
			f.assume(fm.formula)
		}
	}
	cur := map[*ssa.Phi]string{}
	for _, phi := range phis {
		n := vc.fresh(phi.Name(), vc.sortOf(phi.Type()))
		f.vals[phi] = Val{t: n}
		cur[phi] = n
		f.assume(vc.typeFacts(n, phi.Type(), f.st))
	}
	for _, inv := range invs {
		f.assume(inv.at(f.st, cur))
	}
	if li.spec != nil && li.spec.Decreases != nil {
		env := f.loopEnv(li, f.st, cur)
		v := env.tr(li.spec.Decreases.Expr)
		li.variant0 = vc.define("variant", "Int", v.term)
	}
	if li.spec == nil || li.spec.Decreases == nil {
		vc.notes = append(vc.notes, fmt.Sprintf("termination of loop %d of %s not proved (no decreases clause)", li.ordinal, funcDisplay(f.fn)))
	}
}

type invariant struct {
	label string
	props []string
	at    func(st *hstate, phiVals map[*ssa.Phi]string) string
}

func (f *frame) loopEnv(li *loopInfo, st *hstate, phiVals map[*ssa.Phi]string) *specEnv {
	env := f.specEnv(st)
	env.atBlock = li.header
	env.phiOverride = phiVals
	return env
}

func (f *frame) loopInvariants(li *loopInfo, phis []*ssa.Phi) []invariant {
	var out []invariant
	// inferred: range-index pattern and monotone counters
	for _, phi := range phis {
		phi := phi
		if _, ok := intInfoOf(phi.Type()); !ok {
			continue
		}
		lo, hi, ok := f.inferBounds(li, phi)
		if !ok || (lo != nil && hi == nil) {
			// a lower bound alone is not inductive under wrap-around (an unbounded counter may overflow)
			continue
		}
		out = append(out, invariant{label: "auto." + phi.Name() + "." + sanitize(phi.Comment), at: func(st *hstate, pv map[*ssa.Phi]string) string {
			var cs []string
			if lo != nil {
				cs = append(cs, sx("<=", lo(), pv[phi]))
			}
			if hi != nil {
				cs = append(cs, sx("<=", pv[phi], hi()))
			}
			return and(cs...)
		}})
	}
	if li.spec != nil {
		for _, cl := range li.spec.Invariants {
			cl := cl
			out = append(out, invariant{label: cl.Label, props: cl.Props, at: func(st *hstate, pv map[*ssa.Phi]string) string {
				env := f.loopEnv(li, st, pv)
				return env.trBool(cl.Expr)
			}})
		}
	}
	return out
}

// inferBounds recognises counters: phi = [init, phi + c]; and a guard phi' < N on the way back.
func (f *frame) inferBounds(li *loopInfo, phi *ssa.Phi) (lo, hi func() string, ok bool) {
	b := li.header
	var initV ssa.Value
	var stepV ssa.Value
	for i, p := range b.Preds {
		if li.blocks[p] {
			if stepV != nil && stepV != phi.Edges[i] {
				return nil, nil, false
			}
			stepV = phi.Edges[i]
		} else {
			if initV != nil && initV != phi.Edges[i] {
				return nil, nil, false
			}
			initV = phi.Edges[i]
		}
	}
	if initV == nil || stepV == nil {
		return nil, nil, false
	}
	bo, isBin := stepV.(*ssa.BinOp)
	if !isBin || bo.X != ssa.Value(phi) {
		return nil, nil, false
	}
	c, isC := bo.Y.(*ssa.Const)
	if !isC || c.Value == nil || c.Value.Kind() != constant.Int {
		return nil, nil, false
	}
	cv, _ := constant.Int64Val(c.Value)
	if bo.Op == token.SUB {
		cv = -cv
	} else if bo.Op != token.ADD {
		return nil, nil, false
	}
	if li.blocks[initBlockOf(initV)] {
		return nil, nil, false
	}
	if cv > 0 {
		lo = func() string { return f.term(initV) }
		// upper bound: the range pattern "t2 = phi+1; if t2 < n" in the header
		if bo.Block() == b && cv == 1 {
			if iff, okIf := b.Instrs[len(b.Instrs)-1].(*ssa.If); okIf {
				if cmp, okC := iff.Cond.(*ssa.BinOp); okC && cmp.Op == token.LSS && cmp.X == ssa.Value(bo) && !li.blocks[initBlockOf(cmp.Y)] && li.blocks[b.Succs[0]] {
					// back edge only from inside where bo < n held => phi <= n-1; initially phi = init
					n := cmp.Y
					hi = func() string { return sx("imax", f.term(initV), sx("-", f.term(n), "1")) }
				}
			}
		}
		return lo, hi, true
	}
	if cv < 0 {
		hi = func() string { return f.term(initV) }
		return nil, hi, true
	}
	return nil, nil, false
}

func initBlockOf(v ssa.Value) *ssa.BasicBlock {
	if ins, ok := v.(ssa.Instruction); ok {
		return ins.Block()
	}
	return nil
}

func (f *frame) backEdge(li *loopInfo, from *ssa.BasicBlock, succIdx int) {
	b := li.header
	cond := f.edgeCond(from, succIdx)
	// which pred index of header corresponds to this edge
	vals := map[*ssa.Phi]string{}
	var phis []*ssa.Phi
	nth := 0
	for i := 0; i < succIdx; i++ {
		if from.Succs[i] == b {
			nth++
		}
	}
	pi := -1
	k := 0
	for i, p := range b.Preds {
		if p == from {
			if k == nth {
				pi = i
				break
			}
			k++
		}
	}
	for _, ins := range b.Instrs {
		phi, ok := ins.(*ssa.Phi)
		if !ok {
			break
		}
		phis = append(phis, phi)
		vals[phi] = f.term(phi.Edges[pi])
	}
	st := f.blkSt[from]
	for _, inv := range f.loopInvariants(li, phis) {
		f.obligeAt(cond, "inv-step", inv.label, inv.props, inv.at(st, vals), from.Instrs[len(from.Instrs)-1].Pos())
	}
	if li.spec != nil && li.spec.HasMod {
		mods := f.modsInLoop(li)
		if !mods["*"] {
			env := f.loopEnv(li, li.entrySt, li.entryVals)
			for _, fm := range f.frameCondsItems(li.spec.Modifies, env, li.entrySt, st, mods) {
				o := f.obligeAt(cond, "loop-frame", fmt.Sprintf("L%d.%s", li.ordinal, fm.heap), nil, fm.formula, from.Instrs[len(from.Instrs)-1].Pos())
				o.Src = "loop modifies clause: only the listed objects (or objects allocated in the loop) change in heap " + fm.heap
			}
		}
	}
	if li.spec != nil && li.spec.Decreases != nil {
		env := f.loopEnv(li, st, vals)
		v := env.tr(li.spec.Decreases.Expr)
		f.obligeAt(cond, "variant", li.spec.Decreases.Label, li.spec.Decreases.Props, and(sx("<=", "0", li.variant0), sx("<", v.term, li.variant0)), b.Instrs[0].Pos())
	}
}

// afterJoin: the allocation state of a join of several paths contains the entry allocation state (every branch does);
// stated for the joined version directly, with ground instances for the pinned references.
func (f *frame) afterJoin(n int, dom *hstate) {
	vc := f.vc
	if n < 2 || vc.entry == nil || vc.qf > 0 {
		return
	}
	aj := vc.lookup(f.st, "alloc", allocSort)
	// every path into the join passes through the dominating state (dom) and started at entry: both allocation states
	// are contained in the joined one
	for _, st := range []*hstate{vc.entry, dom} {
		if st == nil {
			continue
		}
		a := vc.lookup(st, "alloc", allocSort)
		if a == aj {
			continue
		}
		f.assume(fmt.Sprintf("(forall ((r Int)) (! (=> (select %s r) (select %s r)) :pattern ((select %s r))))", a, aj, aj))
		for _, r := range vc.pinned {
			f.assume(implies(sx("select", a, r), sx("select", aj, r)))
		}
	}
}
