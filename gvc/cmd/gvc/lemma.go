package main

// Lemmas: closed formulas over spec functions, proved once (optionally by induction on one integer
// variable) and then available as axioms in every VC that mentions their recursive spec functions.

import (
	"fmt"
	"sort"
	"strings"
)

// lemmaFormula translates the lemma in symbolic-heap mode. ind != "" binds the induction variable to indTerm.
func (vc *VC) lemmaFormula(lm *Lemma, x Expr, bind map[string]specVal) (string, []string, []string) {
	sym := map[string]string{}
	symOld := map[string]string{}
	var order, orderOld []string
	env := &specEnv{vc: vc, pkg: vc.eng.pkgByPath(lm.Pkg), vars: map[string]specVal{}, symHeaps: sym, symOrder: &order, symOld: symOld, symOldOrder: &orderOld, where: "lemma " + lm.Name}
	for k, v := range bind {
		env.vars[k] = v
	}
	t := env.trBool(x)
	return t, order, orderOld
}

func (vc *VC) heapBinders(order, orderOld []string) []string {
	var bs []string
	for _, h := range order {
		bs = append(bs, fmt.Sprintf("(h!%s %s)", sanitize(h), vc.heapSort[h]))
	}
	for _, h := range orderOld {
		bs = append(bs, fmt.Sprintf("(ho!%s %s)", sanitize(h), vc.heapSort[h]))
	}
	return bs
}

// lemmaSpecs lists the recursive spec functions a lemma mentions.
func lemmaSpecs(cs *ContractSet, x Expr, out map[string]bool, seen map[string]bool) {
	switch n := x.(type) {
	case *EUn:
		lemmaSpecs(cs, n.X, out, seen)
	case *EBin:
		lemmaSpecs(cs, n.X, out, seen)
		lemmaSpecs(cs, n.Y, out, seen)
	case *ECmpChain:
		for _, y := range n.Xs {
			lemmaSpecs(cs, y, out, seen)
		}
	case *ETern:
		lemmaSpecs(cs, n.C, out, seen)
		lemmaSpecs(cs, n.A, out, seen)
		lemmaSpecs(cs, n.B, out, seen)
	case *EQuant:
		lemmaSpecs(cs, n.Body, out, seen)
	case *ESel:
		lemmaSpecs(cs, n.X, out, seen)
	case *EIndex:
		lemmaSpecs(cs, n.X, out, seen)
		lemmaSpecs(cs, n.I, out, seen)
	case *ESlice:
		lemmaSpecs(cs, n.X, out, seen)
		for _, y := range []Expr{n.Lo, n.Hi, n.Max} {
			if y != nil {
				lemmaSpecs(cs, y, out, seen)
			}
		}
	case *EIs:
		lemmaSpecs(cs, n.X, out, seen)
	case *ECall:
		for _, a := range n.Args {
			lemmaSpecs(cs, a, out, seen)
		}
		if sf := cs.Specs[n.Fn]; sf != nil {
			if sf.Rec {
				out[n.Fn] = true
			} else if !seen[n.Fn] {
				seen[n.Fn] = true
				lemmaSpecs(cs, sf.Body, out, seen)
			}
		}
	}
}

// emitLemmaAxioms adds every proved lemma whose recursive spec functions all occur in this VC.
func (vc *VC) emitLemmaAxioms() {
	if vc.qf > 0 {
		return
	}
	for _, lm := range vc.eng.cs.Lemmas {
		if vc.lemmaName != "" && lm.Name == vc.lemmaName {
			break // a lemma may only use lemmas stated before it (no circular reasoning)
		}
		if len(lm.Params) > 0 {
			continue // parameterised lemmas are instantiated explicitly (uses clauses)
		}
		if vc.topC != nil && vc.topC.HasLemmaList {
			listed := false
			for _, n := range vc.topC.LemmaList {
				if n == lm.Name {
					listed = true
				}
			}
			if !listed {
				continue
			}
		}
		need := map[string]bool{}
		lemmaSpecs(vc.eng.cs, lm.Expr, need, map[string]bool{})
		if len(need) == 0 {
			continue
		}
		all := true
		for s := range need {
			if !vc.specDecl[s] {
				all = false
			}
		}
		if !all || vc.lemmaDone[lm.Name] {
			continue
		}
		vc.lemmaDone[lm.Name] = true
		t, order, orderOld := vc.lemmaFormula(lm, lm.Expr, nil)
		bs := vc.heapBinders(order, orderOld)
		if len(bs) > 0 {
			vc.emit(fmt.Sprintf("(assert (forall (%s) %s))", strings.Join(bs, " "), t))
		} else {
			vc.emit(fmt.Sprintf("(assert %s)", t))
		}
		kind := "lemma"
		if lm.Axiom {
			kind = "axiom (unproved, trusted)"
		}
		vc.assumed[kind+" "+lm.Name+": "+lm.Src] = true
	}
}

// lemmaVC builds the proof obligations of one lemma.
func (eng *Engine) lemmaVC(lm *Lemma) (vc *VC, err error) {
	vc = newVC(eng, nil, nil)
	vc.lemmaName = lm.Name
	defer func() {
		if r := recover(); r != nil {
			switch e := r.(type) {
			case unsupportedErr:
				err = fmt.Errorf("unsupported: %s", e.msg)
			case specErr:
				err = fmt.Errorf("spec error: %s", e.msg)
			default:
				panic(r)
			}
		}
	}()
	vc.emit(preludeBase)
	vc.emit(preludeQuant)
	vc.emit("(assert (forall ((v Int)) (! (=> (> v 0) (= (root v) v)) :pattern ((root v)))))")
	vc.lemmaDone[lm.Name] = true // a lemma is never its own axiom
	declared := map[string]bool{}
	declHeaps := func(order, orderOld []string) {
		for _, h := range order {
			n := "h!" + sanitize(h)
			if !declared[n] {
				declared[n] = true
				vc.emit(fmt.Sprintf("(declare-const %s %s)", n, vc.heapSort[h]))
			}
		}
		for _, h := range orderOld {
			n := "ho!" + sanitize(h)
			if !declared[n] {
				declared[n] = true
				vc.emit(fmt.Sprintf("(declare-const %s %s)", n, vc.heapSort[h]))
			}
		}
	}
	add := func(key, guard, cond string) {
		o := &Obligation{Name: "lemma." + lm.Name + "/" + key, Kind: "lemma", Key: key, Props: lm.Props, Guard: guard, Cond: cond, Pos: fmt.Sprintf("%s:%d", shortFile(lm.File), lm.Line), Src: lm.Src, Func: "lemma." + lm.Name}
		vc.obls = append(vc.obls, o)
	}
	if len(lm.Params) > 0 {
		bind := map[string]specVal{}
		pe := &specEnv{vc: vc, pkg: eng.pkgByPath(lm.Pkg), where: "lemma " + lm.Name}
		for _, p := range lm.Params {
			srt, t := pe.sortOfName(p.Typ)
			n := vc.fresh("lp."+p.Name, srt)
			if p.Typ == "introw" {
				bind[p.Name] = specVal{term: n, kind: "row"}
			} else if t == nil || p.Typ == "int" {
				bind[p.Name] = mathInt(n)
			} else {
				bind[p.Name] = specVal{term: n, typ: t}
				vc.emit(fmt.Sprintf("(assert %s)", vc.typeFacts(n, t, nil)))
			}
		}
		t, o1, o2 := vc.lemmaFormula(lm, lm.Expr, bind)
		declHeaps(o1, o2)
		add("valid", "true", t)
		return vc, nil
	}
	if lm.Induction == "" {
		t, o1, o2 := vc.lemmaFormula(lm, lm.Expr, nil)
		declHeaps(o1, o2)
		add("valid", "true", t)
		return vc, nil
	}
	q, ok := lm.Expr.(*EQuant)
	if !ok || !q.Forall || q.Vars[0].Name != lm.Induction {
		return nil, fmt.Errorf("lemma %s: induction variable %s must be the first variable of a top-level forall", lm.Name, lm.Induction)
	}
	var inner Expr = q.Body
	if len(q.Vars) > 1 {
		inner = &EQuant{Forall: true, Vars: q.Vars[1:], Body: q.Body}
	}
	vc.emit("(declare-const k!ind Int)")
	g, o1, o2 := vc.lemmaFormula(lm, inner, map[string]specVal{lm.Induction: mathInt("k!ind")})
	declHeaps(o1, o2)
	ih, o3, o4 := vc.lemmaFormula(lm, inner, map[string]specVal{lm.Induction: mathInt("(- k!ind 1)")})
	declHeaps(o3, o4)
	add("base", "(<= k!ind 0)", g)
	add("step", and("(> k!ind 0)", ih), g)
	return vc, nil
}

func sortedKeys(m map[string]bool) []string {
	var out []string
	for k := range m {
		out = append(out, k)
	}
	sort.Strings(out)
	return out
}
