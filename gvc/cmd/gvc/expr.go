package main

// Specification expression language: lexer, AST and parser.
//
// Grammar (lowest to highest precedence):
//   quant   := ('forall'|'exists') ident [type] {',' ident [type]} '::' quant | tern
//   tern    := iff ['?' quant ':' quant]
//   iff     := impl {'<==>' impl}
//   impl    := or ['==>' impl]                (right assoc)
//   or      := and {'||' and}
//   and     := cmp {'&&' cmp}
//   cmp     := add {relop add}                (chains: a <= b < c)
//   add     := mul {('+'|'-') mul}
//   mul     := unary {('*'|'/'|'%') unary}
//   unary   := ('!'|'-'|'*') unary | postfix
//   postfix := primary { '.' ident | '.#' ident | '[' quant ']' | '[' quant? ':' quant? ']' | '(' args ')' | 'is' type }
//   primary := int | char | string | ident | '(' quant ')'

import (
	"fmt"
	"strconv"
	"strings"
)

type tokKind int

const (
	tEOF tokKind = iota
	tInt
	tStr
	tIdent
	tOp
)

type stoken struct {
	kind tokKind
	text string
	pos  int
}

type lexer struct {
	src  string
	toks []stoken
}

func lex(src string) ([]stoken, error) {
	var toks []stoken
	i := 0
	for i < len(src) {
		c := src[i]
		switch {
		case c == ' ' || c == '\t' || c == '\n':
			i++
		case c >= '0' && c <= '9':
			j := i
			for j < len(src) && (src[j] >= '0' && src[j] <= '9' || src[j] == 'x' || src[j] >= 'a' && src[j] <= 'f' || src[j] >= 'A' && src[j] <= 'F' || src[j] == '_') {
				j++
			}
			toks = append(toks, stoken{tInt, strings.ReplaceAll(src[i:j], "_", ""), i})
			i = j
		case c == '\'':
			j := i + 1
			for j < len(src) && src[j] != '\'' {
				if src[j] == '\\' {
					j++
				}
				j++
			}
			if j >= len(src) {
				return nil, fmt.Errorf("unterminated char literal at %d", i)
			}
			r, _, _, err := strconv.UnquoteChar(src[i+1:j], '\'')
			if err != nil {
				return nil, fmt.Errorf("bad char literal %s", src[i:j+1])
			}
			toks = append(toks, stoken{tInt, strconv.Itoa(int(r)), i})
			i = j + 1
		case c == '"':
			j := i + 1
			for j < len(src) && src[j] != '"' {
				if src[j] == '\\' {
					j++
				}
				j++
			}
			if j >= len(src) {
				return nil, fmt.Errorf("unterminated string literal at %d", i)
			}
			s, err := strconv.Unquote(src[i : j+1])
			if err != nil {
				return nil, fmt.Errorf("bad string literal %s", src[i:j+1])
			}
			toks = append(toks, stoken{tStr, s, i})
			i = j + 1
		case c == '_' || c == '$' || c == '#' || c >= 'a' && c <= 'z' || c >= 'A' && c <= 'Z':
			j := i + 1
			for j < len(src) && (src[j] == '_' || src[j] == '$' || src[j] >= 'a' && src[j] <= 'z' || src[j] >= 'A' && src[j] <= 'Z' || src[j] >= '0' && src[j] <= '9') {
				j++
			}
			toks = append(toks, stoken{tIdent, src[i:j], i})
			i = j
		default:
			ops := []string{"<==>", "==>", "::", "<=", ">=", "==", "!=", "&&", "||", "<", ">", "+", "-", "*", "/", "%", "!", "(", ")", "[", "]", ".", ",", "?", ":", "{", "}", "&"}
			found := false
			for _, op := range ops {
				if strings.HasPrefix(src[i:], op) {
					toks = append(toks, stoken{tOp, op, i})
					i += len(op)
					found = true
					break
				}
			}
			if !found {
				return nil, fmt.Errorf("unexpected character %q at %d in %q", c, i, src)
			}
		}
	}
	toks = append(toks, stoken{tEOF, "", len(src)})
	return toks, nil
}

// Expr is a specification expression node.
type Expr interface{ String() string }

type (
	EInt   struct{ V string }
	EStr   struct{ V string }
	EIdent struct{ Name string }
	EUn    struct {
		Op string
		X  Expr
	}
	EBin struct {
		Op   string
		X, Y Expr
	}
	ECmpChain struct {
		Ops []string
		Xs  []Expr
	}
	ETern  struct{ C, A, B Expr }
	EQuant struct {
		Forall bool
		Vars   []QVar
		Body   Expr
	}
	ESel struct {
		X     Expr
		Name  string
		Ghost bool
	}
	EIndex struct{ X, I Expr }
	ESlice struct{ X, Lo, Hi, Max Expr }
	ECall  struct {
		Fn   string
		Args []Expr
	}
	EIs struct {
		X   Expr
		Typ string
	}
)

type QVar struct {
	Name string
	Typ  string
}

func (e *EInt) String() string   { return e.V }
func (e *EStr) String() string   { return strconv.Quote(e.V) }
func (e *EIdent) String() string { return e.Name }
func (e *EUn) String() string    { return "(" + e.Op + e.X.String() + ")" }
func (e *EBin) String() string   { return "(" + e.X.String() + " " + e.Op + " " + e.Y.String() + ")" }
func (e *ECmpChain) String() string {
	s := "(" + e.Xs[0].String()
	for i, op := range e.Ops {
		s += " " + op + " " + e.Xs[i+1].String()
	}
	return s + ")"
}
func (e *ETern) String() string {
	return "(" + e.C.String() + " ? " + e.A.String() + " : " + e.B.String() + ")"
}
func (e *EQuant) String() string {
	k := "exists"
	if e.Forall {
		k = "forall"
	}
	var vs []string
	for _, v := range e.Vars {
		vs = append(vs, v.Name)
	}
	return "(" + k + " " + strings.Join(vs, ",") + " :: " + e.Body.String() + ")"
}
func (e *ESel) String() string {
	if e.Ghost {
		return e.X.String() + ".#" + e.Name
	}
	return e.X.String() + "." + e.Name
}
func (e *EIndex) String() string { return e.X.String() + "[" + e.I.String() + "]" }
func (e *ESlice) String() string {
	lo, hi := "", ""
	if e.Lo != nil {
		lo = e.Lo.String()
	}
	if e.Hi != nil {
		hi = e.Hi.String()
	}
	return e.X.String() + "[" + lo + ":" + hi + "]"
}
func (e *ECall) String() string {
	var as []string
	for _, a := range e.Args {
		as = append(as, a.String())
	}
	return e.Fn + "(" + strings.Join(as, ", ") + ")"
}
func (e *EIs) String() string { return "(" + e.X.String() + " is " + e.Typ + ")" }

type parser struct {
	toks []stoken
	p    int
	src  string
}

func parseExpr(src string) (e Expr, err error) {
	toks, err := lex(src)
	if err != nil {
		return nil, err
	}
	ps := &parser{toks: toks, src: src}
	defer func() {
		if r := recover(); r != nil {
			if pe, ok := r.(parseErr); ok {
				err = fmt.Errorf("%s in %q", string(pe), src)
				return
			}
			panic(r)
		}
	}()
	e = ps.quant()
	if ps.peek().kind != tEOF {
		ps.fail("unexpected %q", ps.peek().text)
	}
	return e, nil
}

type parseErr string

func (ps *parser) fail(f string, a ...interface{}) {
	panic(parseErr(fmt.Sprintf(f, a...) + fmt.Sprintf(" at offset %d", ps.peek().pos)))
}
func (ps *parser) peek() stoken { return ps.toks[ps.p] }
func (ps *parser) next() stoken { t := ps.toks[ps.p]; ps.p++; return t }
func (ps *parser) isOp(s string) bool {
	t := ps.peek()
	return t.kind == tOp && t.text == s
}
func (ps *parser) isIdent(s string) bool {
	t := ps.peek()
	return t.kind == tIdent && t.text == s
}
func (ps *parser) expectOp(s string) {
	if !ps.isOp(s) {
		ps.fail("expected %q, got %q", s, ps.peek().text)
	}
	ps.p++
}

func (ps *parser) quant() Expr {
	if ps.isIdent("forall") || ps.isIdent("exists") {
		fa := ps.next().text == "forall"
		var vars []QVar
		for {
			t := ps.next()
			if t.kind != tIdent {
				ps.fail("expected bound variable")
			}
			v := QVar{Name: t.text, Typ: "int"}
			if ps.peek().kind == tIdent || ps.isOp("[") || ps.isOp("*") {
				v.Typ = ps.typeName()
			}
			vars = append(vars, v)
			if ps.isOp(",") {
				ps.p++
				continue
			}
			break
		}
		ps.expectOp("::")
		body := ps.quant()
		return &EQuant{Forall: fa, Vars: vars, Body: body}
	}
	return ps.tern()
}

func (ps *parser) tern() Expr {
	c := ps.iff()
	if ps.isOp("?") {
		ps.p++
		a := ps.quant()
		ps.expectOp(":")
		b := ps.quant()
		return &ETern{c, a, b}
	}
	return c
}

func (ps *parser) iff() Expr {
	x := ps.impl()
	for ps.isOp("<==>") {
		ps.p++
		y := ps.impl()
		x = &EBin{"<==>", x, y}
	}
	return x
}

func (ps *parser) impl() Expr {
	x := ps.or()
	if ps.isOp("==>") {
		ps.p++
		var y Expr
		if ps.isIdent("forall") || ps.isIdent("exists") {
			y = ps.quant()
		} else {
			y = ps.impl()
		}
		return &EBin{"==>", x, y}
	}
	return x
}

func (ps *parser) or() Expr {
	x := ps.and()
	for ps.isOp("||") {
		ps.p++
		y := ps.and()
		x = &EBin{"||", x, y}
	}
	return x
}

func (ps *parser) and() Expr {
	x := ps.cmp()
	for ps.isOp("&&") {
		ps.p++
		var y Expr
		if ps.isIdent("forall") || ps.isIdent("exists") {
			y = ps.quant()
		} else {
			y = ps.cmp()
		}
		x = &EBin{"&&", x, y}
	}
	return x
}

func isRel(s string) bool {
	switch s {
	case "<", "<=", ">", ">=", "==", "!=":
		return true
	}
	return false
}

func (ps *parser) cmp() Expr {
	x := ps.add()
	if ps.peek().kind == tOp && isRel(ps.peek().text) {
		ch := &ECmpChain{Xs: []Expr{x}}
		for ps.peek().kind == tOp && isRel(ps.peek().text) {
			ch.Ops = append(ch.Ops, ps.next().text)
			ch.Xs = append(ch.Xs, ps.add())
		}
		if len(ch.Ops) == 1 {
			return &EBin{ch.Ops[0], ch.Xs[0], ch.Xs[1]}
		}
		return ch
	}
	return x
}

func (ps *parser) add() Expr {
	x := ps.mul()
	for ps.isOp("+") || ps.isOp("-") {
		op := ps.next().text
		y := ps.mul()
		x = &EBin{op, x, y}
	}
	return x
}

func (ps *parser) mul() Expr {
	x := ps.unary()
	for ps.isOp("*") || ps.isOp("/") || ps.isOp("%") {
		op := ps.next().text
		y := ps.unary()
		x = &EBin{op, x, y}
	}
	return x
}

func (ps *parser) unary() Expr {
	if ps.isOp("!") || ps.isOp("-") || ps.isOp("*") || ps.isOp("&") {
		op := ps.next().text
		x := ps.unary()
		return &EUn{op, x}
	}
	return ps.postfix()
}

func (ps *parser) typeName() string {
	s := ""
	for ps.isOp("*") || ps.isOp("[") {
		if ps.isOp("[") {
			ps.p++
			ps.expectOp("]")
			s += "[]"
		} else {
			ps.p++
			s += "*"
		}
	}
	t := ps.next()
	if t.kind != tIdent {
		ps.fail("expected type name")
	}
	s += t.text
	for ps.isOp(".") {
		ps.p++
		s += "." + ps.next().text
	}
	return s
}

func (ps *parser) postfix() Expr {
	x := ps.primary()
	for {
		switch {
		case ps.isOp("."):
			ps.p++
			t := ps.next()
			if t.kind != tIdent {
				ps.fail("expected field name")
			}
			if strings.HasPrefix(t.text, "#") {
				x = &ESel{X: x, Name: t.text[1:], Ghost: true}
			} else {
				x = &ESel{X: x, Name: t.text}
			}
		case ps.isOp("["):
			ps.p++
			var lo, hi Expr
			if ps.isOp(":") {
				ps.p++
				if !ps.isOp("]") {
					hi = ps.quant()
				}
				var mx Expr
				if ps.isOp(":") {
					ps.p++
					mx = ps.quant()
				}
				ps.expectOp("]")
				x = &ESlice{x, nil, hi, mx}
				continue
			}
			lo = ps.quant()
			if ps.isOp(":") {
				ps.p++
				if !ps.isOp("]") {
					hi = ps.quant()
				}
				var mx Expr
				if ps.isOp(":") {
					ps.p++
					mx = ps.quant()
				}
				ps.expectOp("]")
				x = &ESlice{x, lo, hi, mx}
				continue
			}
			ps.expectOp("]")
			x = &EIndex{x, lo}
		case ps.isIdent("is"):
			ps.p++
			x = &EIs{x, ps.typeName()}
		default:
			return x
		}
	}
}

func (ps *parser) primary() Expr {
	t := ps.next()
	switch t.kind {
	case tInt:
		return &EInt{t.text}
	case tStr:
		return &EStr{t.text}
	case tIdent:
		name := t.text
		// qualified spec-function or package-level names: pkg.Name handled by ESel later.
		if ps.isOp("(") {
			ps.p++
			var args []Expr
			for !ps.isOp(")") {
				args = append(args, ps.quant())
				if ps.isOp(",") {
					ps.p++
				}
			}
			ps.expectOp(")")
			return &ECall{name, args}
		}
		return &EIdent{name}
	case tOp:
		if t.text == "(" {
			e := ps.quant()
			ps.expectOp(")")
			return e
		}
	}
	ps.p--
	ps.fail("unexpected token %q", t.text)
	return nil
}
