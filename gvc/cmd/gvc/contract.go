package main

// Contract files: //@ lines in zz_verif_contracts.go (comment-only, build tag verif).

import (
	"bufio"
	"fmt"
	"os"
	"path/filepath"
	"regexp"
	"strconv"
	"strings"
)

type Clause struct {
	ExplicitProps bool // the clause names its properties itself (a precondition then reports under those at call sites)
	Kind  string // requires, ensures, invariant, decreases, lemma, axiom
	Label string
	After string // ensures only: the clause applies at the returns every path to which goes through a call to this callee
	Props []string
	Src   string
	Expr  Expr
	File  string
	Line  int
}

type LoopSpec struct {
	Modifies   []ModItem
	HasMod     bool
	Invariants []*Clause
	Decreases  *Clause
	Bounded    int
}

type ModItem struct {
	Fresh bool // heap named, but only objects allocated during the call are written
	Src   string
	Expr  Expr   // object-level: x.f / x.* / x[*]
	Heap  string // heap-level: exact heap name or prefix with trailing '*'
	All   bool
}

type Contract struct {
	Kind         string // func, extern, iface, closure
	Pkg          string // package path the contract file belongs to
	Key          string // canonical key, see funcKey
	ParamNames   []string
	Props        []string
	Requires     []*Clause
	Ensures      []*Clause
	Loops        map[int]*LoopSpec
	Modifies     []ModItem
	HasMod       bool
	Inline       bool
	NoInline     bool
	Trusted      bool
	Undecided    []string // substrings of obligation names that are stated as not decided (assumed, listed in the evidence)
	Pure         bool
	Opaque       bool // do not look into the body even without contract clauses
	NoReturn     bool
	Replay       string
	Uses         []*Clause            // lemma instances assumed at entry: name(args)
	AtCalls      map[string][]*Clause // callee name -> assertions about the call (arg0, arg1, ...: arguments, receiver first)
	Nilable      bool                 // the receiver may be nil (no non-nil assumption at entry)
	LemmaList    []string             // if HasLemmaList: only these lemmas are added as axioms
	HasLemmaList bool
	FreshOnly    []string // heaps (names or prefix*) in which only objects allocated during the call change, whatever else the function does
	Binds        map[string]string // name -> callee: the name denotes the result of the call to that callee (independent of local variable names)
	NoCalls      []string // callees (plain or Interface.Method names) this function must not call itself
	SuffixSplit  bool   // case split over bounded-depth path suffixes when the function has too many whole paths
	StepFrames   bool   // prove (and then use) the frame relative to function entry after every call (long call chains)
	ClosedWorld  bool   // interface contract: every implementation in the module is verified against it
	Implements   string // "Iface.Method": the interface contract this method must also satisfy (behavioural subtyping)
	TypedHeap    bool // state well-typedness of unconstrained heap versions as axioms (needed for heap reads in specs)
	File         string
	Line         int
	used         bool
}

type SpecFn struct {
	Name     string
	Pkg      string
	Params   []QVar
	Result   string
	Body     Expr
	Src      string
	Rec      bool
	Uninterp bool
	Reads    []string // heap names read (filled on first translation)
	File     string
	Line     int
	Trigger  string
}

type Lemma struct {
	Params    []QVar
	Induction string
	Name      string
	Pkg       string
	Props     []string
	Expr      Expr
	Src       string
	Axiom     bool
	File      string
	Line      int
}

// ImmutableGlobal: a package-level variable never assigned after initialisation, with its known contents.
type ImmutableGlobal struct {
	Pkg   string
	Name  string
	Bytes string // contents for []byte variables
	File  string
	Line  int
}

type GhostField struct {
	Pkg   string
	Owner string // type name
	Name  string
	Typ   string
}

type ContractSet struct {
	Contracts  map[string]*Contract // key: pkgpath + "::" + Key, or "extern::" + Key
	Specs      map[string]*SpecFn
	Lemmas     []*Lemma
	Ghosts     map[string]*GhostField      // Owner.Name
	Immutables map[string]*ImmutableGlobal // pkg::name
	TypeInvs   map[string][]*Clause        // pkg::TypeName -> invariants (over `self`)
	Files      []string
	Errors     []string
}

var clauseKeywords = map[string]bool{
	"func": true, "spec": true, "extern": true, "iface": true, "closure": true, "callback": true, "requires": true, "ensures": true,
	"loop": true, "modifies": true, "inline": true, "noinline": true, "trusted": true, "pure": true, "lemma": true,
	"axiom": true, "ghost": true, "type": true, "opaque": true, "noreturn": true, "replay": true, "recspec": true, "uspec": true, "uses": true, "nilable": true, "implements": true, "closedworld": true, "stepframes": true, "suffixsplit": true, "bind": true, "freshonly": true, "nocall": true, "typedheap": true, "lemmas": true, "immutable": true, "atcall": true, "undecided": true,
}

var propsRe = regexp.MustCompile(`^\[((?:C[0-9]+)(?:\s*,\s*C[0-9]+)*)\]\s*`)
var labelRe = regexp.MustCompile(`^@([A-Za-z0-9_.\-]+)\s+`)

func splitProps(s string) ([]string, string) {
	m := propsRe.FindStringSubmatch(s)
	if m == nil {
		return nil, s
	}
	var ps []string
	for _, p := range strings.Split(m[1], ",") {
		ps = append(ps, strings.TrimSpace(p))
	}
	return ps, s[len(m[0]):]
}

func (cs *ContractSet) errf(file string, line int, f string, a ...interface{}) {
	cs.Errors = append(cs.Errors, fmt.Sprintf("%s:%d: ", file, line)+fmt.Sprintf(f, a...))
}

// logical line assembled from continuation lines
type logLine struct {
	text string
	line int
}

func readContractLines(path string) ([]logLine, error) {
	f, err := os.Open(path)
	if err != nil {
		return nil, err
	}
	defer f.Close()
	sc := bufio.NewScanner(f)
	sc.Buffer(make([]byte, 1<<20), 1<<20)
	var out []logLine
	n := 0
	for sc.Scan() {
		n++
		l := strings.TrimSpace(sc.Text())
		if !strings.HasPrefix(l, "//@") {
			continue
		}
		l = strings.TrimSpace(l[3:])
		if l == "" || strings.HasPrefix(l, "--") {
			continue
		}
		// strip trailing comment " // ..."
		if i := strings.Index(l, " // "); i >= 0 {
			l = strings.TrimSpace(l[:i])
		}
		first := l
		if i := strings.IndexAny(l, " \t("); i >= 0 {
			first = l[:i]
		}
		if clauseKeywords[first] || len(out) == 0 {
			out = append(out, logLine{l, n})
		} else {
			out[len(out)-1].text += " " + l
		}
	}
	return out, sc.Err()
}

var funcHdrRe = regexp.MustCompile(`^(?:\(\s*(\w+)\s+(\*?)([\w.]+)\s*\)\s*)?([\w$.]+)\s*(?:\(([^)]*)\))?\s*`)

func (cs *ContractSet) LoadFile(path, pkgPath string) {
	lines, err := readContractLines(path)
	if err != nil {
		cs.Errors = append(cs.Errors, err.Error())
		return
	}
	cs.Files = append(cs.Files, path)
	var cur *Contract
	for _, ll := range lines {
		l := ll.text
		word := l
		rest := ""
		if i := strings.IndexAny(l, " \t"); i >= 0 {
			word, rest = l[:i], strings.TrimSpace(l[i+1:])
		}
		mkClause := func(kind, src string) *Clause {
			props, src := splitProps(src)
			label := ""
			afterCallee := ""
			if kind == "ensures" && strings.HasPrefix(src, "after ") {
				r := strings.TrimSpace(src[6:])
				if i := strings.IndexAny(r, " \t"); i > 0 {
					afterCallee, src = r[:i], strings.TrimSpace(r[i+1:])
				}
			}
			if m := labelRe.FindStringSubmatch(src); m != nil {
				label = m[1]
				src = src[len(m[0]):]
			}
			explicit := props != nil
			if props == nil && cur != nil {
				props = cur.Props
			}
			e, err := parseExpr(src)
			if err != nil {
				cs.errf(path, ll.line, "%v", err)
				return nil
			}
			return &Clause{Kind: kind, Label: label, After: afterCallee, Props: props, ExplicitProps: explicit, Src: src, Expr: e, File: path, Line: ll.line}
		}
		switch word {
		case "func", "extern", "iface", "closure", "callback":
			m := funcHdrRe.FindStringSubmatch(rest)
			if m == nil {
				cs.errf(path, ll.line, "bad header %q", rest)
				cur = nil
				continue
			}
			after := rest[len(m[0]):]
			props, _ := splitProps(after)
			c := &Contract{Kind: word, Pkg: pkgPath, Props: props, Loops: map[int]*LoopSpec{}, File: path, Line: ll.line}
			name := m[4]
			if m[3] != "" { // receiver form
				if m[2] == "*" {
					c.Key = "(*" + m[3] + ")." + name
				} else {
					c.Key = "(" + m[3] + ")." + name
				}
			} else {
				c.Key = name
			}
			if m[5] != "" {
				for _, p := range strings.Split(m[5], ",") {
					c.ParamNames = append(c.ParamNames, strings.TrimSpace(p))
				}
			}
			if word == "extern" && m[3] != "" && m[1] != "" {
				c.ParamNames = append([]string{m[1]}, c.ParamNames...)
			}
			k := pkgPath + "::" + c.Key
			if word == "extern" {
				k = "extern::" + c.Key
			}
			if word == "iface" {
				k = "iface::" + qualify(pkgPath, c.Key)
			}
			if word == "callback" {
				// callback (recv *T) Func.param(args): the contract assumed of (and obligations at calls of) a function-typed parameter
				k = pkgPath + "::callback:" + c.Key
				if m[3] != "" && m[1] != "" && len(c.ParamNames) > 0 && false {
					_ = k
				}
			}
			if old, dup := cs.Contracts[k]; dup {
				cs.errf(path, ll.line, "duplicate contract for %s (first at line %d)", k, old.Line)
			}
			cs.Contracts[k] = c
			cur = c
		case "requires", "ensures":
			if cur == nil {
				cs.errf(path, ll.line, "%s outside a contract", word)
				continue
			}
			cl := mkClause(word, rest)
			if cl == nil {
				continue
			}
			if word == "requires" {
				if cl.Label == "" {
					cl.Label = "r" + strconv.Itoa(len(cur.Requires)+1)
				}
				cur.Requires = append(cur.Requires, cl)
			} else {
				if cl.Label == "" {
					cl.Label = "e" + strconv.Itoa(len(cur.Ensures)+1)
				}
				cur.Ensures = append(cur.Ensures, cl)
			}
		case "loop":
			if cur == nil {
				cs.errf(path, ll.line, "loop outside a contract")
				continue
			}
			parts := strings.SplitN(rest, " ", 3)
			if len(parts) < 3 {
				cs.errf(path, ll.line, "bad loop clause")
				continue
			}
			n, err := strconv.Atoi(parts[0])
			if err != nil {
				cs.errf(path, ll.line, "bad loop ordinal %q", parts[0])
				continue
			}
			ls := cur.Loops[n]
			if ls == nil {
				ls = &LoopSpec{}
				cur.Loops[n] = ls
			}
			switch parts[1] {
			case "invariant":
				cl := mkClause("invariant", parts[2])
				if cl != nil {
					if cl.Label == "" {
						cl.Label = fmt.Sprintf("L%d.%d", n, len(ls.Invariants)+1)
					}
					ls.Invariants = append(ls.Invariants, cl)
				}
			case "decreases":
				cl := mkClause("decreases", parts[2])
				if cl != nil {
					cl.Label = fmt.Sprintf("L%d.variant", n)
					ls.Decreases = cl
				}
			case "bounded":
				ls.Bounded, _ = strconv.Atoi(parts[2])
			case "modifies":
				ls.HasMod = true
				for _, it := range splitTop(parts[2]) {
					it = strings.TrimSpace(it)
					switch {
					case it == "" || it == "nothing":
					case strings.HasPrefix(it, "heap "):
						ls.Modifies = append(ls.Modifies, ModItem{Src: it, Heap: strings.TrimSpace(it[5:])})
					case strings.HasPrefix(it, "fresh "):
						ls.Modifies = append(ls.Modifies, ModItem{Src: it, Heap: strings.TrimSpace(it[6:]), Fresh: true})
					default:
						src := strings.Replace(strings.Replace(it, ".*", ".ALLFIELDS", 1), "[*]", ".ALLELEMS", 1)
						e, err := parseExpr(src)
						if err != nil {
							cs.errf(path, ll.line, "%v", err)
							continue
						}
						ls.Modifies = append(ls.Modifies, ModItem{Src: it, Expr: e})
					}
				}
			default:
				cs.errf(path, ll.line, "bad loop clause kind %q", parts[1])
			}
		case "modifies":
			if cur == nil {
				cs.errf(path, ll.line, "modifies outside a contract")
				continue
			}
			cur.HasMod = true
			for _, it := range splitTop(rest) {
				it = strings.TrimSpace(it)
				switch {
				case it == "" || it == "nothing":
				case it == "*":
					cur.Modifies = append(cur.Modifies, ModItem{Src: it, All: true})
				case strings.HasPrefix(it, "heap "), strings.HasPrefix(it, "fresh "):
					fr := strings.HasPrefix(it, "fresh ")
					hn := strings.TrimSpace(it[strings.Index(it, " ")+1:])
					cur.Modifies = append(cur.Modifies, ModItem{Src: it, Heap: hn, Fresh: fr})
					// the two heaps of a map type go together (presence and values)
					if strings.HasPrefix(hn, "MH.") {
						cur.Modifies = append(cur.Modifies, ModItem{Src: it, Heap: "MV." + hn[3:], Fresh: fr})
					} else if strings.HasPrefix(hn, "MV.") {
						cur.Modifies = append(cur.Modifies, ModItem{Src: it, Heap: "MH." + hn[3:], Fresh: fr})
					}
				default:
					src := strings.Replace(strings.Replace(it, ".*", ".ALLFIELDS", 1), "[*]", ".ALLELEMS", 1)
					e, err := parseExpr(src)
					if err != nil {
						cs.errf(path, ll.line, "%v", err)
						continue
					}
					cur.Modifies = append(cur.Modifies, ModItem{Src: it, Expr: e})
				}
			}
		case "uses":
			if cur != nil {
				if cl := mkClause("uses", rest); cl != nil {
					cur.Uses = append(cur.Uses, cl)
				}
			}
		case "nilable":
			if cur != nil {
				cur.Nilable = true
			}
		case "typedheap":
			if cur != nil {
				cur.TypedHeap = true
			}
		case "freshonly":
			if cur != nil {
				for _, it := range splitTop(rest) {
					if it = strings.TrimSpace(it); it != "" {
						cur.FreshOnly = append(cur.FreshOnly, it)
						if strings.HasPrefix(it, "MH.") {
							cur.FreshOnly = append(cur.FreshOnly, "MV."+it[3:])
						}
					}
				}
			}
		case "nocall":
			if cur != nil {
				for _, it := range splitTop(rest) {
					if it = strings.TrimSpace(it); it != "" {
						cur.NoCalls = append(cur.NoCalls, it)
					}
				}
			}
		case "undecided":
			if cur != nil {
				if it := strings.TrimSpace(rest); it != "" {
					cur.Undecided = append(cur.Undecided, it)
				}
			}
		case "stepframes":
			if cur != nil {
				cur.StepFrames = true
			}
		case "bind":
			if cur != nil {
				if i := strings.Index(rest, "="); i > 0 {
					if cur.Binds == nil {
						cur.Binds = map[string]string{}
					}
					cur.Binds[strings.TrimSpace(rest[:i])] = strings.TrimSpace(rest[i+1:])
				}
			}
		case "suffixsplit":
			if cur != nil {
				cur.SuffixSplit = true
			}
		case "closedworld":
			if cur != nil {
				cur.ClosedWorld = true
			}
		case "implements":
			if cur != nil {
				cur.Implements = strings.TrimSpace(rest)
			}
		case "immutable":
			// immutable name "contents"
			f := strings.SplitN(rest, " ", 2)
			if len(f) != 2 {
				cs.errf(path, ll.line, "bad immutable declaration")
				continue
			}
			s, err := strconv.Unquote(strings.TrimSpace(f[1]))
			if err != nil {
				cs.errf(path, ll.line, "bad immutable contents")
				continue
			}
			cs.Immutables[pkgPath+"::"+f[0]] = &ImmutableGlobal{Pkg: pkgPath, Name: f[0], Bytes: s, File: path, Line: ll.line}
			cur = nil
		case "atcall":
			// atcall callee @label expr     (arg0.. are the call's arguments, receiver first)
			if cur == nil {
				cs.errf(path, ll.line, "atcall outside a contract")
				continue
			}
			f := strings.SplitN(rest, " ", 2)
			if len(f) != 2 {
				cs.errf(path, ll.line, "bad atcall clause")
				continue
			}
			if cl := mkClause("atcall", f[1]); cl != nil {
				if cur.AtCalls == nil {
					cur.AtCalls = map[string][]*Clause{}
				}
				if cl.Label == "" {
					cl.Label = fmt.Sprintf("a%d", len(cur.AtCalls[f[0]])+1)
				}
				cur.AtCalls[f[0]] = append(cur.AtCalls[f[0]], cl)
			}
		case "lemmas":
			if cur != nil {
				cur.HasLemmaList = true
				for _, n := range strings.Split(rest, ",") {
					n = strings.TrimSpace(n)
					if n != "" && n != "none" {
						cur.LemmaList = append(cur.LemmaList, n)
					}
				}
			}
		case "inline":
			if cur != nil {
				cur.Inline = true
			}
		case "noinline":
			if cur != nil {
				cur.NoInline = true
			}
		case "trusted":
			if cur != nil {
				cur.Trusted = true
			}
		case "opaque":
			if cur != nil {
				cur.Opaque = true
			}
		case "noreturn":
			if cur != nil {
				cur.NoReturn = true
			}
		case "pure":
			if cur != nil {
				cur.Pure = true
				cur.HasMod = true
			}
		case "replay":
			if cur != nil {
				cur.Replay = rest
			}
		case "uspec":
			// uspec name(a T, b T) R     -- uninterpreted spec function (used by stated contracts)
			i := strings.Index(rest, "(")
			j := strings.LastIndex(rest, ")")
			if i < 0 || j < i {
				cs.errf(path, ll.line, "bad uspec declaration %q", rest)
				continue
			}
			sf := &SpecFn{Name: strings.TrimSpace(rest[:i]), Pkg: pkgPath, Result: strings.TrimSpace(rest[j+1:]), Uninterp: true, File: path, Line: ll.line}
			for _, p := range strings.Split(rest[i+1:j], ",") {
				f := strings.Fields(strings.TrimSpace(p))
				if len(f) == 2 {
					sf.Params = append(sf.Params, QVar{f[0], f[1]})
				}
			}
			cs.Specs[sf.Name] = sf
			cur = nil
		case "spec", "recspec":
			// spec name(a T, b T) R = expr
			i := strings.Index(rest, "(")
			j := strings.Index(rest, ")")
			k := strings.Index(rest, "=")
			for k >= 0 && k+1 < len(rest) && (rest[k+1] == '=' || (k > 0 && strings.ContainsRune("<>!=", rune(rest[k-1])))) {
				nk := strings.Index(rest[k+2:], "=")
				if nk < 0 {
					k = -1
					break
				}
				k = k + 2 + nk
			}
			if i < 0 || j < i || k < j {
				cs.errf(path, ll.line, "bad spec declaration %q", rest)
				continue
			}
			sf := &SpecFn{Name: strings.TrimSpace(rest[:i]), Pkg: pkgPath, Result: strings.TrimSpace(rest[j+1 : k]), Src: strings.TrimSpace(rest[k+1:]), Rec: word == "recspec", File: path, Line: ll.line}
			for _, p := range strings.Split(rest[i+1:j], ",") {
				p = strings.TrimSpace(p)
				if p == "" {
					continue
				}
				f := strings.Fields(p)
				if len(f) != 2 {
					cs.errf(path, ll.line, "bad spec parameter %q", p)
					continue
				}
				sf.Params = append(sf.Params, QVar{f[0], f[1]})
			}
			e, err := parseExpr(sf.Src)
			if err != nil {
				cs.errf(path, ll.line, "%v", err)
				continue
			}
			sf.Body = e
			if _, dup := cs.Specs[sf.Name]; dup {
				cs.errf(path, ll.line, "duplicate spec function %s", sf.Name)
			}
			cs.Specs[sf.Name] = sf
			cur = nil
		case "lemma", "axiom":
			props, r2 := splitProps(rest)
			i := strings.Index(r2, ":")
			if i < 0 {
				cs.errf(path, ll.line, "lemma needs a name followed by ':'")
				continue
			}
			name := strings.TrimSpace(r2[:i])
			if j := strings.Index(name, "["); j > 0 {
				if p3, _ := splitProps(name[j:] + " "); p3 != nil {
					props = p3
					name = strings.TrimSpace(name[:j])
				}
			}
			var lparams []QVar
			if j := strings.Index(name, "("); j > 0 && strings.HasSuffix(name, ")") {
				for _, p := range strings.Split(name[j+1:len(name)-1], ",") {
					f := strings.Fields(strings.TrimSpace(p))
					if len(f) == 2 {
						lparams = append(lparams, QVar{f[0], f[1]})
					}
				}
				name = strings.TrimSpace(name[:j])
			}
			src := strings.TrimSpace(r2[i+1:])
			props2, src := splitProps(src)
			if props == nil {
				props = props2
			}
			ind := ""
			if strings.HasPrefix(src, "induction ") {
				j := strings.Index(src, ":")
				if j > 0 && !strings.HasPrefix(src[j:], "::") {
					ind = strings.TrimSpace(src[len("induction "):j])
					src = strings.TrimSpace(src[j+1:])
				}
			}
			e, err := parseExpr(src)
			if err != nil {
				cs.errf(path, ll.line, "%v", err)
				continue
			}
			cs.Lemmas = append(cs.Lemmas, &Lemma{Params: lparams, Induction: ind, Name: name, Pkg: pkgPath, Props: props, Expr: e, Src: src, Axiom: word == "axiom", File: path, Line: ll.line})
			cur = nil
		case "ghost":
			// ghost Owner.name type
			f := strings.Fields(rest)
			if len(f) != 2 || !strings.Contains(f[0], ".") {
				cs.errf(path, ll.line, "bad ghost declaration")
				continue
			}
			i := strings.LastIndex(f[0], ".")
			g := &GhostField{Pkg: pkgPath, Owner: f[0][:i], Name: f[0][i+1:], Typ: f[1]}
			cs.Ghosts[g.Name] = g
			cur = nil
		case "type":
			// type T invariant expr   (over `self`)
			f := strings.SplitN(rest, " ", 3)
			if len(f) != 3 || f[1] != "invariant" {
				cs.errf(path, ll.line, "bad type invariant")
				continue
			}
			save := cur
			cur = nil
			cl := mkClause("typeinv", f[2])
			cur = save
			if cl != nil {
				k := pkgPath + "::" + f[0]
				cs.TypeInvs[k] = append(cs.TypeInvs[k], cl)
			}
		default:
			cs.errf(path, ll.line, "unknown clause %q", word)
		}
	}
}

func qualify(pkgPath, key string) string {
	// iface keys: Type.Method, optionally already qualified by a package path containing '/'
	if strings.Contains(key, "/") || strings.HasPrefix(key, "error.") {
		return key
	}
	// pkgname.Type.Method for well-known packages
	if strings.Count(key, ".") == 2 {
		return key
	}
	return pkgPath + "." + key
}

// splitTop splits on commas that are not nested in brackets.
func splitTop(s string) []string {
	var out []string
	depth := 0
	start := 0
	for i, c := range s {
		switch c {
		case '(', '[':
			depth++
		case ')', ']':
			depth--
		case ',':
			if depth == 0 {
				out = append(out, s[start:i])
				start = i + 1
			}
		}
	}
	out = append(out, s[start:])
	return out
}

func NewContractSet() *ContractSet {
	return &ContractSet{Contracts: map[string]*Contract{}, Specs: map[string]*SpecFn{}, Ghosts: map[string]*GhostField{}, Immutables: map[string]*ImmutableGlobal{}, TypeInvs: map[string][]*Clause{}}
}

// LoadContracts reads zz_verif_contracts*.go of each package dir.
func LoadContracts(dirs map[string]string) *ContractSet {
	cs := NewContractSet()
	for pkgPath, dir := range dirs {
		ms, _ := filepath.Glob(filepath.Join(dir, "zz_verif_contracts*.go"))
		for _, m := range ms {
			cs.LoadFile(m, pkgPath)
		}
	}
	return cs
}
