package main

import (
	"bufio"
	"encoding/json"
	"fmt"
	"os"
	"path/filepath"
	"sort"
	"strconv"
	"strings"
	"sync"
	"time"
)

type KnownFinding struct {
	Property   string `json:"property"`
	Status     string `json:"status"` // open | fixed
	Obligation string `json:"obligation"`
	Witness    string `json:"witness,omitempty"`
	What       string `json:"what"`
	Commit     string `json:"commit,omitempty"`
}

func loadKnownFindings(verif string) []KnownFinding {
	var out []KnownFinding
	f, err := os.Open(filepath.Join(verif, "KNOWN_FINDINGS"))
	if err != nil {
		return nil
	}
	defer f.Close()
	sc := bufio.NewScanner(f)
	sc.Buffer(make([]byte, 1<<20), 1<<20)
	for sc.Scan() {
		l := strings.TrimSpace(sc.Text())
		switch {
		case strings.HasPrefix(l, "open:"):
			var k KnownFinding
			if json.Unmarshal([]byte(strings.TrimSpace(l[5:])), &k) == nil {
				k.Status = "open"
				out = append(out, k)
			}
		case strings.HasPrefix(l, "fixed:"):
			out = append(out, KnownFinding{Status: "fixed", What: strings.TrimSpace(l[6:])})
		}
	}
	return out
}

func hasProp(props []string, p string) bool {
	for _, x := range props {
		if x == p {
			return true
		}
	}
	return false
}

// selectTargets: functions whose contract mentions the property, in its header or in any clause.
func (eng *Engine) selectTargets(prop string) []target {
	var out []target
	for _, t := range eng.targets() {
		if t.lm != nil {
			if hasProp(t.lm.Props, prop) {
				out = append(out, t)
			}
			continue
		}
		if contractMentions(t.ct, prop) {
			out = append(out, t)
		}
	}
	return out
}

func contractMentions(ct *Contract, prop string) bool {
	if hasProp(ct.Props, prop) {
		return true
	}
	for _, c := range ct.Requires {
		if hasProp(c.Props, prop) {
			return true
		}
	}
	for _, c := range ct.Ensures {
		if hasProp(c.Props, prop) {
			return true
		}
	}
	for _, l := range ct.Loops {
		for _, c := range l.Invariants {
			if hasProp(c.Props, prop) {
				return true
			}
		}
	}
	return false
}

func baselinePath(verif, prop string) string {
	return filepath.Join(verif, "baseline", prop+".obligations")
}

func loadBaseline(verif, prop string) map[string]bool {
	f, err := os.Open(baselinePath(verif, prop))
	if err != nil {
		return nil
	}
	defer f.Close()
	out := map[string]bool{}
	sc := bufio.NewScanner(f)
	for sc.Scan() {
		l := strings.TrimSpace(sc.Text())
		if l == "" || strings.HasPrefix(l, "#") {
			continue
		}
		out[strings.Fields(l)[0]] = true
	}
	return out
}

type checkRun struct {
	eng                 *Engine
	targets             map[string]target
	prop                string
	results             []*FuncResult
	wall                float64
	loadErr             string
	specErrs            []string
	stale               []string
	immutableViolations []string
}

func runProperty(repo, verif, prop string, timeoutMs int, thorough bool) *checkRun {
	start := time.Now()
	cr := &checkRun{prop: prop}
	eng, err := LoadEngine(repo, verif)
	if err != nil {
		cr.loadErr = err.Error()
		cr.wall = time.Since(start).Seconds()
		return cr
	}
	cr.eng = eng
	cr.targets = map[string]target{}
	cr.specErrs = eng.cs.Errors
	cr.stale = eng.staleContracts()
	cr.immutableViolations = eng.checkImmutables()
	ts := eng.selectTargets(prop)
	workDir := filepath.Join(verif, "work", prop)
	os.RemoveAll(workDir)
	results := make([]*FuncResult, len(ts))
	var wg sync.WaitGroup
	sem := make(chan struct{}, 16)
	// VC generation is not thread-safe w.r.t. the shared engine caches: generate sequentially, solve in parallel.
	vcs := make([]*VC, len(ts))
	for i, t := range ts {
		cr.targets[t.display()] = t
		g0 := time.Now()
		fr := eng.newFuncResult(t)
		vc, err := eng.build(t)
		fr.GenTime = time.Since(g0).Seconds()
		if err != nil {
			fr.Err = err.Error()
		}
		vcs[i] = vc
		results[i] = fr
	}
	// lemmas used as axioms by these VCs are part of the property's proof: verify them here too
	have := map[string]bool{}
	for _, t := range ts {
		if t.lm != nil {
			have[t.lm.Name] = true
		}
	}
	for changed := true; changed; {
		changed = false
		for i := 0; i < len(vcs); i++ {
			if vcs[i] == nil {
				continue
			}
			vcs[i].emitLemmaAxioms()
			for name := range vcs[i].lemmaDone {
				if have[name] {
					continue
				}
				for _, lm := range eng.cs.Lemmas {
					if lm.Name == name && !lm.Axiom {
						have[name] = true
						changed = true
						t := target{lm: lm}
						ts = append(ts, t)
						cr.targets[t.display()] = t
						fr := eng.newFuncResult(t)
						fr.Props = append(append([]string{}, fr.Props...), prop)
						vc, err := eng.build(t)
						if err != nil {
							fr.Err = err.Error()
						}
						vcs = append(vcs, vc)
						results = append(results, fr)
					}
				}
			}
		}
	}
	for i := range ts {
		if results[i].Err != "" {
			continue
		}
		wg.Add(1)
		go func(i int) {
			defer wg.Done()
			sem <- struct{}{}
			defer func() { <-sem }()
			vc := vcs[i]
			fr := results[i]
			file, secs, err := eng.discharge(vc, workDir, timeoutMs, thorough)
			fr.SMTFile = file
			fr.SolveTime = secs
			if err != nil {
				fr.Err = err.Error()
			}
			fr.Obls = vc.obls
			for a := range vc.assumed {
				fr.Assumed = append(fr.Assumed, a)
			}
			sort.Strings(fr.Assumed)
			fr.Notes = vc.notes
		}(i)
	}
	wg.Wait()
	// second pass: obligations left undecided (no answer within the budget while every function of the property was
	// competing for the cores) are tried again, one function at a time, with three times the budget. A refutation
	// ("sat") is final; only "unknown"/"timeout" get the second chance.
	openKnown := map[string]bool{}
	for _, k := range loadKnownFindings(verif) {
		if k.Status == "open" {
			openKnown[k.Obligation] = true
		}
	}
	for i := range ts {
		if results[i].Err != "" || vcs[i] == nil {
			continue
		}
		open := 0
		for _, o := range vcs[i].obls {
			if !o.Cover && o.Status != "unsat" && o.Status != "sat" && !openKnown[o.Name] {
				open++
			}
		}
		if open == 0 || open > 12 {
			continue
		}
		vcs[i].retryOnly = true
		_, secs, _ := eng.discharge(vcs[i], workDir, timeoutMs*3, thorough)
		results[i].SolveTime += secs
		results[i].Obls = vcs[i].obls
	}
	cr.results = results
	cr.wall = time.Since(start).Seconds()
	return cr
}

func cmdCheck(repo, verif, prop, tier string, timeoutMs int, verbose bool) int {
	if prop == "" {
		fmt.Fprintln(os.Stderr, "check: --property required")
		return 2
	}
	thorough := tier == "thorough"
	if timeoutMs == 0 {
		timeoutMs = 10000
		if thorough {
			timeoutMs = 60000
		}
	}
	seed := 0
	if s := os.Getenv("VERIF_SEED"); s != "" {
		seed, _ = strconv.Atoi(s)
	}
	cr := runProperty(repo, verif, prop, timeoutMs, thorough)
	replayDir := filepath.Join(verif, "replay", prop)
	os.RemoveAll(replayDir)
	os.MkdirAll(replayDir, 0o755)
	violations := 0
	emitViolation := func(name, body string, noInput bool) {
		violations++
		p := filepath.Join(replayDir, sanitize(name)+".txt")
		os.WriteFile(p, []byte(body), 0o644)
		suffix := ""
		if noInput {
			suffix = " no-failing-input-found"
		}
		fmt.Printf("VIOLATION property=%s replay=%s obligation=%s%s\n", prop, p, name, suffix)
	}
	if cr.loadErr != "" {
		emitViolation("engine/load", "the repository could not be loaded for verification:\n"+cr.loadErr+"\n", true)
		writeEvidence(verif, prop, tier, seed, cr, nil, violations, nil, nil)
		return 1
	}
	for _, e := range cr.specErrs {
		emitViolation("engine/contract-syntax", "contract file error: "+e+"\n", true)
	}
	known := loadKnownFindings(verif)
	openByObl := map[string]KnownFinding{}
	for _, k := range known {
		if k.Property == prop && k.Status == "open" {
			openByObl[k.Obligation] = k
		}
	}
	base := loadBaseline(verif, prop)
	seen := map[string]bool{}
	replays := map[string]int{}
	var knownHit []string
	nObl, nDis := 0, 0
	var assumedObls []string
	for _, fr := range cr.results {
		if fr.Err != "" {
			emitViolation(fr.Fn+"/engine", fmt.Sprintf("function %s could not be brought under the verifier:\n%s\nEvery obligation of this function is undecided (contract stale or construct outside the supported subset).\n", fr.Fn, fr.Err), true)
			continue
		}
		for _, o := range fr.Obls {
			if !o.Cover && !hasProp(o.Props, prop) && (o.PropsOnly || !hasProp(fr.Props, prop)) {
				continue
			}
			if o.Cover {
				// a dead return (e.g. an error path a callee's contract excludes) is not vacuity; an unsatisfiable
				// precondition or a function none of whose returns is reachable is
				if o.Status == "vacuous" && (o.Key == "pre" || allRetsVacuous(fr)) {
					emitViolation(o.Name, fmt.Sprintf("vacuity guard failed: %s is unreachable under the contract's assumptions (%s)\n", o.Name, o.Pos), true)
				}
				continue
			}
			seen[o.Name] = true
			if o.Assumed {
				// named by an 'undecided' clause: never sent to a back end, so neither an obligation of this run nor a
				// discharged one; it is an assumption, listed by name in the evidence and in the summary line
				assumedObls = append(assumedObls, o.Name)
				continue
			}
			nObl++
			if o.ok() {
				nDis++
				continue
			}
			if k, isKnown := openByObl[o.Name]; isKnown {
				fmt.Printf("KNOWN-FINDING: property=%s %s\n", prop, k.What)
				knownHit = append(knownHit, o.Name)
				nObl--
				continue
			}
			was := "new obligation (not in the committed baseline)"
			if base[o.Name] {
				was = "discharged on the unchanged tree (committed baseline), fails now"
			}
			body := fmt.Sprintf("obligation: %s\nproperty:   %s\nkind:       %s\nwhere:      %s\nclause/src: %s\nstatus:     %s (last solver: %s)\nhistory:    %s\nquery file: %s\n\nThe verifier could not discharge this obligation from the current source of /repo.\n%s\n",
				o.Name, prop, o.Kind, o.Pos, o.Src, o.Status, o.Solver, was, fr.SMTFile, o.Model)
			rp := replayResult{false, "no-failing-input-found: replay not attempted (more than 3 failing obligations in this function; the first ones carry the replay)"}
			replays[fr.Fn]++
			if t, ok := cr.targets[fr.Fn]; ok && t.lm == nil && replays[fr.Fn] <= 3 {
				rp = cr.eng.replayObligation(t, o.Name, o.Kind, verif, prop)
			}
			if rp.reproduced {
				body += "\nREPLAY: reproduced on the real code\n" + rp.text
				p := filepath.Join(replayDir, sanitize(o.Name)+".txt")
				os.WriteFile(p, []byte(body), 0o644)
				violations++
				fmt.Printf("VIOLATION property=%s replay=%s obligation=%s\n", prop, p, o.Name)
			} else {
				body += "\n" + rp.text
				emitViolation(o.Name, body, true)
			}
		}
	}
	// vanished obligations: in the baseline but no longer generated
	if base != nil {
		// Only a contract clause that is no longer checked anywhere counts: obligations are grouped by function and
		// clause (return and site ordinals stripped), and only the kinds that carry a stated clause are considered
		// (post, atcall, invariants, lemmas, interface implementation). Fewer safety, frame or call-precondition
		// obligations (a removed statement, a merged return) are not a violation of anything.
		seenGroup := map[string]bool{}
		for n := range seen {
			seenGroup[oblGroup(n)] = true
		}
		var gone []string
		goneGroup := map[string]bool{}
		for n := range base {
			g := oblGroup(n)
			if !seen[n] && !seenGroup[g] && !goneGroup[g] && clauseKind(n) {
				goneGroup[g] = true
				gone = append(gone, n)
			}
		}
		sort.Strings(gone)
		for _, n := range gone {
			if _, isKnown := openByObl[n]; isKnown {
				continue
			}
			emitViolation(n, fmt.Sprintf("obligation %s is in the committed baseline but no obligation of its clause is generated any more (contract stale: function, clause or site vanished)\n", n), true)
		}
	}
	for _, iv := range cr.immutableViolations {
		emitViolation("engine/immutable", iv, true)
	}
	for _, s := range cr.stale {
		if strings.Contains(s, "::") {
			emitViolation("engine/stale:"+s, "contract refers to a function that no longer exists: "+s+"\n", true)
		}
	}
	writeEvidence(verif, prop, tier, seed, cr, knownHit, violations, map[string]int{"obligations": nObl, "discharged": nDis}, assumedObls)
	if verbose {
		for _, fr := range cr.results {
			fmt.Printf("  %-50s gen %.2fs solve %.2fs err=%s\n", fr.Fn, fr.GenTime, fr.SolveTime, fr.Err)
		}
	}
	assumedTxt := ""
	if len(assumedObls) > 0 {
		assumedTxt = fmt.Sprintf(" %d more assumed instead of checked (undecided clauses; listed in the evidence),", len(assumedObls))
	}
	fmt.Printf("property %s: %d obligations, %d discharged,%s %d violations, %.1fs\n", prop, nObl, nDis, assumedTxt, violations, cr.wall)
	if violations > 0 {
		return 1
	}
	return 0
}

func allRetsVacuous(fr *FuncResult) bool {
	n := 0
	for _, o := range fr.Obls {
		if o.Cover && strings.HasPrefix(o.Key, "ret") {
			n++
			if o.Status != "vacuous" {
				return false
			}
		}
	}
	return n > 0
}

type replayResult struct {
	reproduced bool
	text       string
}

func writeEvidence(verif, prop, tier string, seed int, cr *checkRun, knownHit []string, violations int, counts map[string]int, assumedObls []string) {
	type fnEv struct {
		Name    string  `json:"name"`
		File    string  `json:"file"`
		Clauses int     `json:"clauses"`
		Obls    int     `json:"obligations"`
		SolveS  float64 `json:"solver_s"`
		Err     string  `json:"error,omitempty"`
	}
	var fns []fnEv
	byKind := map[string]int{}
	byBackend := map[string]int{}
	assumed := map[string]bool{}
	notes := map[string]bool{}
	var samples []map[string]interface{}
	sumSolve, maxSolve := 0.0, 0.0
	covers, coversOK := 0, 0
	isKnown := map[string]bool{}
	for _, k := range knownHit {
		isKnown[k] = true
	}
	for _, fr := range cr.results {
		n := 0
		for _, o := range fr.Obls {
			if o.Cover {
				covers++
				if o.ok() {
					coversOK++
				}
				continue
			}
			if !hasProp(o.Props, prop) && (o.PropsOnly || !hasProp(fr.Props, prop)) {
				continue
			}
			if o.Assumed || isKnown[o.Name] {
				continue // an assumption (listed under assumed_obligations) or an open known finding (known_findings): not counted
			}
			n++
			byKind[o.Kind]++
			if o.ok() {
				byBackend[o.Solver]++
			}
			if len(samples) < 6 && o.Kind != "safety" && o.ok() || len(samples) < 3 {
				samples = append(samples, map[string]interface{}{"obligation": o.Name, "kind": o.Kind, "clause": o.Src, "where": o.Pos, "backend": o.Solver, "status": o.Status})
			}
		}
		fns = append(fns, fnEv{fr.Fn, fr.File, fr.NClauses, n, fr.SolveTime, fr.Err})
		sumSolve += fr.SolveTime
		if fr.SolveTime > maxSolve {
			maxSolve = fr.SolveTime
		}
		for _, a := range fr.Assumed {
			assumed[a] = true
		}
		for _, a := range fr.Notes {
			notes[a] = true
		}
	}
	var trusted []string
	for a := range assumed {
		trusted = append(trusted, a)
	}
	sort.Strings(trusted)
	var noteList []string
	for a := range notes {
		noteList = append(noteList, a)
	}
	sort.Strings(noteList)
	if counts == nil {
		counts = map[string]int{"obligations": 0, "discharged": 0}
	}
	if assumedObls == nil {
		assumedObls = []string{}
	}
	sort.Strings(assumedObls)
	meta := loadPropMeta(verif)[prop]
	assumptions := append([]string{
		"the VC generator gvc itself (unverified; guarded by the must-fail corpus, solver agreement and vacuity covers)",
		"machine integers are modelled exactly (wrap-around per Go type), not as mathematical integers; slices hold at most 2^48 elements (address space), string lengths are bounded by MaxInt64",
		"solver back ends: z3 5.1.0 (constants and macro renderings) and cvc5 1.0; an obligation counts only on unsat; answers for byte-identical queries may come from the local answer cache (back end .../cached)",
		"extraction drops: go statements and timer closures are not followed; recover blocks ignored; select is a nondeterministic choice; channel operations do not block; sync locks have no scheduling semantics",
	}, meta.assumptions...)
	assumptions = append(assumptions, trusted...)
	if cr.eng != nil {
		for _, ti := range cr.eng.trustedImpls {
			if hasProp(ti.props, prop) {
				assumptions = append(assumptions, ti.text)
			}
		}
	}
	ev := map[string]interface{}{
		"property_id": prop,
		"tier":        tier,
		"seed":        seed,
		"level":       "proof",
		"wall_s":      cr.wall,
		"violations":  violations,
		"assumptions": assumptions,
		"coverage": map[string]interface{}{
			"obligations":              counts["obligations"],
			"discharged":               counts["discharged"],
			"assumed_not_discharged":   len(assumedObls),
			"assumed_obligations":      assumedObls,
			"counting_rule":            "obligations = verification conditions generated from /repo's current source for this property and sent to a back end on this run; discharged = those answered unsat. Conditions named by an `undecided` clause of a contract are not sent to a back end: they are assumptions, counted in assumed_not_discharged, named in assumed_obligations, trusted_base and assumptions, and never part of obligations or discharged. Obligations of an open known finding are reported by their KNOWN-FINDING line and are not counted either.",
			"checker_cmd":              fmt.Sprintf("/verif/bin/gvc check --property %s --tier %s", prop, tier),
			"trusted_base":             trusted,
			"functions_under_contract": fns,
			"by_kind":                  byKind,
			"by_backend":               byBackend,
			"solver_s":                 map[string]float64{"sum": sumSolve, "max_per_function": maxSolve},
			"vacuity_covers":           map[string]int{"checked": covers, "not_vacuous": coversOK},
			"samples":                  samples,
			"known_findings":           knownHit,
			"not_decided":              meta.notDecided,
			"termination_notes":        noteList,
			"bounded":                  []string{},
			"load_error":               cr.loadErr,
		},
	}
	os.MkdirAll(filepath.Join(verif, "evidence"), 0o755)
	b, _ := json.MarshalIndent(ev, "", " ")
	os.WriteFile(filepath.Join(verif, "evidence", prop+".json"), append(b, '\n'), 0o644)
}

type propMeta struct {
	notDecided  []string
	assumptions []string
}

func loadPropMeta(verif string) map[string]propMeta {
	out := map[string]propMeta{}
	b, err := os.ReadFile(filepath.Join(verif, "propmeta.json"))
	if err != nil {
		return out
	}
	var raw map[string]struct {
		NotDecided  []string `json:"not_decided"`
		Assumptions []string `json:"assumptions"`
	}
	if json.Unmarshal(b, &raw) != nil {
		return out
	}
	for k, v := range raw {
		out[k] = propMeta{notDecided: v.NotDecided, assumptions: v.Assumptions}
	}
	return out
}

func cmdBaseline(repo, verif, prop string, all bool, timeoutMs int) int {
	if timeoutMs == 0 {
		timeoutMs = 10000
	}
	props := []string{prop}
	if all {
		props = nil
		for i := 1; i <= 20; i++ {
			props = append(props, fmt.Sprintf("C%02d", i))
		}
	}
	os.MkdirAll(filepath.Join(verif, "baseline"), 0o755)
	rc := 0
	for _, p := range props {
		cr := runProperty(repo, verif, p, timeoutMs, false)
		if cr.loadErr != "" {
			fmt.Println("load error:", cr.loadErr)
			return 1
		}
		var lines []string
		bad := 0
		for _, fr := range cr.results {
			if fr.Err != "" {
				fmt.Printf("%s: %s: %s\n", p, fr.Fn, fr.Err)
				bad++
				continue
			}
			for _, o := range fr.Obls {
				if o.Cover || (!hasProp(o.Props, p) && (o.PropsOnly || !hasProp(fr.Props, p))) {
					continue
				}
				if o.ok() {
					lines = append(lines, fmt.Sprintf("%s %s", o.Name, o.Solver))
				} else {
					fmt.Printf("%s: NOT DISCHARGED %s (%s)\n", p, o.Name, o.Status)
					bad++
				}
			}
		}
		if len(lines) == 0 {
			continue
		}
		sort.Strings(lines)
		os.WriteFile(baselinePath(verif, p), []byte("# obligations discharged on the unchanged tree: name backend\n"+strings.Join(lines, "\n")+"\n"), 0o644)
		fmt.Printf("%s: %d obligations in baseline, %d not discharged\n", p, len(lines), bad)
		if bad > 0 {
			rc = 1
		}
	}
	return rc
}

func cmdSelftest(verif, only string, verbose bool) int { return 2 }

// oblGroup strips the return ordinal (@retN) and the site ordinal (#k) from an obligation name.
func oblGroup(n string) string {
	if i := strings.LastIndex(n, "#"); i >= 0 {
		if _, err := strconv.Atoi(n[i+1:]); err == nil {
			n = n[:i]
		}
	}
	if i := strings.LastIndex(n, "@ret"); i >= 0 {
		if _, err := strconv.Atoi(n[i+4:]); err == nil {
			n = n[:i]
		}
	}
	return n
}

// clauseKind: the obligation comes from a stated contract clause (not from the run-time safety sweep, a frame, or a
// callee's precondition at a call site).
func clauseKind(n string) bool {
	if strings.HasPrefix(n, "lemma.") {
		return true
	}
	i := strings.LastIndex(n, "/")
	k := n[i+1:]
	if j := strings.Index(k, ":"); j >= 0 {
		k = k[:j]
	}
	switch k {
	case "post", "atcall", "inv-init", "inv-step", "lemma", "implpre", "implpost", "stale":
		return true
	}
	return false
}
