package main

// Counterexample search and replay.
//
// A failed obligation is followed by a quantifier-free rendering of the same VC with small length
// bounds (never used to discharge anything). A model of it is a *candidate* input; it is turned into
// an in-package Go test that calls the real function (injected with go test -overlay, nothing is
// written into /repo). Only a candidate that misbehaves on the real code counts as reproduced.

import (
	"bytes"
	"context"
	"encoding/json"
	"fmt"
	"go/types"
	"os"
	"os/exec"
	"path/filepath"
	"regexp"
	"strconv"
	"strings"
	"time"

	"golang.org/x/tools/go/ssa"
)

// ---- s-expressions ----------------------------------------------------------------------

type sexp struct {
	atom string
	list []*sexp
}

func parseSexps(s string) []*sexp {
	var out []*sexp
	i := 0
	var parse func() *sexp
	skip := func() {
		for i < len(s) && (s[i] == ' ' || s[i] == '\n' || s[i] == '\t' || s[i] == '\r') {
			i++
		}
	}
	parse = func() *sexp {
		skip()
		if i >= len(s) {
			return nil
		}
		if s[i] == '(' {
			i++
			n := &sexp{}
			for {
				skip()
				if i >= len(s) {
					return n
				}
				if s[i] == ')' {
					i++
					return n
				}
				c := parse()
				if c == nil {
					return n
				}
				n.list = append(n.list, c)
			}
		}
		if s[i] == '"' {
			j := i + 1
			for j < len(s) && s[j] != '"' {
				j++
			}
			a := s[i : j+1]
			i = j + 1
			return &sexp{atom: a}
		}
		if s[i] == '|' {
			j := i + 1
			for j < len(s) && s[j] != '|' {
				j++
			}
			a := s[i : j+1]
			i = j + 1
			return &sexp{atom: a}
		}
		j := i
		for j < len(s) && !strings.ContainsRune(" \n\t\r()", rune(s[j])) {
			j++
		}
		a := s[i:j]
		i = j
		return &sexp{atom: a}
	}
	for {
		skip()
		if i >= len(s) {
			break
		}
		if s[i] == ')' {
			i++
			continue
		}
		n := parse()
		if n == nil {
			break
		}
		out = append(out, n)
	}
	return out
}

func (x *sexp) isAtom() bool { return x.list == nil && x.atom != "" }

// intVal evaluates numerals, (- n), and simple arithmetic produced by solvers.
func (x *sexp) intVal() (int64, bool) {
	if x.isAtom() {
		v, err := strconv.ParseInt(x.atom, 10, 64)
		if err != nil {
			if u, err2 := strconv.ParseUint(x.atom, 10, 64); err2 == nil {
				return int64(u), true
			}
			if strings.Contains(x.atom, ".") {
				f, err3 := strconv.ParseFloat(x.atom, 64)
				return int64(f), err3 == nil
			}
			return 0, false
		}
		return v, true
	}
	if len(x.list) == 2 && x.list[0].atom == "-" {
		v, ok := x.list[1].intVal()
		return -v, ok
	}
	return 0, false
}

// ---- query tree -------------------------------------------------------------------------------

type qnode struct {
	typ      types.Type
	term     string // SMT term whose value describes this node (scalar, slice header, ref)
	val      *sexp
	fields   []*qnode // struct fields / slice elements / pointee
	kind     string   // int, bool, string, slice, ptrstruct, ptrscalar, struct, opaque
	name     string
	strChars []*qnode
}

type replayer struct {
	eng   *Engine
	vc    *VC
	K     int
	nodes []*qnode // flattened in query order
	pkg   *types.Package
	imps  map[string]bool
}

func (rp *replayer) add(n *qnode) *qnode {
	if n.term != "" {
		rp.nodes = append(rp.nodes, n)
	}
	return n
}

func (rp *replayer) build(term string, t types.Type, depth int, st *hstate) *qnode {
	vc := rp.vc
	switch u := t.Underlying().(type) {
	case *types.Basic:
		switch {
		case u.Info()&types.IsInteger != 0:
			return rp.add(&qnode{typ: t, term: term, kind: "int"})
		case u.Info()&types.IsBoolean != 0:
			return rp.add(&qnode{typ: t, term: term, kind: "bool"})
		case u.Info()&types.IsString != 0:
			n := rp.add(&qnode{typ: t, term: sx("slen", term), kind: "string"})
			for k := 0; k < rp.K; k++ {
				n.strChars = append(n.strChars, rp.add(&qnode{term: sx("sat", term, fmt.Sprint(k)), kind: "int"}))
			}
			return n
		}
	case *types.Slice:
		n := rp.add(&qnode{typ: t, term: term, kind: "slice"})
		et := u.Elem()
		if depth > 3 {
			return n
		}
		for k := 0; k < rp.K; k++ {
			ks := fmt.Sprint(k)
			if _, ok := isStruct(et); ok {
				ref := sx(vc.declElemRef(et), sArr(term), sx("+", sOff(term), ks))
				n.fields = append(n.fields, rp.buildStructAt(ref, et, depth+1, st))
			} else {
				srt := vc.sortOf(et)
				h := vc.lookup(st, elemHeapName(et), "(Array Int (Array Int "+srt+"))")
				n.fields = append(n.fields, rp.build(sx("select", sx("select", h, sArr(term)), sx("+", sOff(term), ks)), et, depth+1, st))
			}
		}
		return n
	case *types.Pointer:
		et := u.Elem()
		if _, ok := isStruct(et); ok {
			n := rp.add(&qnode{typ: t, term: term, kind: "ptrstruct"})
			if depth <= 3 {
				n.fields = []*qnode{rp.buildStructAt(term, et, depth+1, st)}
			}
			return n
		}
		if _, ok := et.Underlying().(*types.Array); ok {
			return rp.add(&qnode{typ: t, term: term, kind: "opaque"})
		}
		n := rp.add(&qnode{typ: t, term: term, kind: "ptrscalar"})
		srt := vc.sortOf(et)
		h := vc.lookup(st, ptrHeapName(et), "(Array Int "+srt+")")
		n.fields = []*qnode{rp.build(sx("select", h, term), et, depth+1, st)}
		return n
	case *types.Struct:
		n := &qnode{typ: t, kind: "struct"}
		for i := 0; i < u.NumFields(); i++ {
			c := rp.build(sx(vc.structSel(t, i), term), u.Field(i).Type(), depth+1, st)
			c.name = u.Field(i).Name()
			n.fields = append(n.fields, c)
		}
		return n
	}
	return &qnode{typ: t, kind: "opaque"}
}

func (rp *replayer) zeroExpr(t types.Type) string {
	if t == nil {
		return "nil"
	}
	switch u := t.Underlying().(type) {
	case *types.Basic:
		switch {
		case u.Info()&types.IsNumeric != 0:
			return rp.typeStr(t) + "(0)"
		case u.Info()&types.IsString != 0:
			return rp.typeStr(t) + "(\"\")"
		case u.Info()&types.IsBoolean != 0:
			return rp.typeStr(t) + "(false)"
		}
	case *types.Struct:
		return rp.typeStr(t) + "{}"
	}
	return "nil"
}

func (rp *replayer) buildStructAt(ref string, t types.Type, depth int, st *hstate) *qnode {
	vc := rp.vc
	s := t.Underlying().(*types.Struct)
	n := &qnode{typ: t, kind: "struct"}
	for i := 0; i < s.NumFields(); i++ {
		ft := s.Field(i).Type()
		var c *qnode
		if _, ok := isStruct(ft); ok {
			c = rp.buildStructAt(sx(vc.declSubRef(t, i), ref), ft, depth+1, st)
		} else if depth > 4 {
			c = &qnode{typ: ft, kind: "opaque"}
		} else {
			h := vc.lookup(st, fieldHeapName(t, i), "(Array Int "+vc.sortOf(ft)+")")
			c = rp.build(sx("select", h, ref), ft, depth+1, st)
		}
		c.name = s.Field(i).Name()
		n.fields = append(n.fields, c)
	}
	return n
}

func (rp *replayer) typeStr(t types.Type) string {
	return types.TypeString(t, func(p *types.Package) string {
		if p == rp.pkg {
			return ""
		}
		rp.imps[p.Path()] = true
		return p.Name()
	})
}

func exportedOrLocal(f *types.Var, pkg *types.Package) bool {
	return f.Exported() || f.Pkg() == pkg
}

// goExpr renders the node as a Go expression.
func (rp *replayer) goExpr(n *qnode) string {
	switch n.kind {
	case "int":
		v, _ := n.val.intVal()
		if ii, ok := intInfoOf(n.typ); ok {
			if !ii.signed {
				return fmt.Sprintf("%s(%d)", rp.typeStr(n.typ), uint64(v)&maskBits(ii.bits))
			}
		}
		return fmt.Sprintf("%s(%d)", rp.typeStr(n.typ), v)
	case "bool":
		return fmt.Sprintf("%s(%s)", rp.typeStr(n.typ), n.val.atom)
	case "string":
		l, _ := n.val.intVal()
		var bs []byte
		for k := 0; k < int(l) && k < len(n.strChars); k++ {
			c, _ := n.strChars[k].val.intVal()
			bs = append(bs, byte(c))
		}
		return fmt.Sprintf("%s(%q)", rp.typeStr(n.typ), string(bs))
	case "slice":
		if len(n.val.list) != 5 {
			return "nil"
		}
		arr, _ := n.val.list[1].intVal()
		l, _ := n.val.list[3].intVal()
		if arr == 0 {
			return fmt.Sprintf("%s(nil)", rp.typeStr(n.typ))
		}
		var es []string
		for k := 0; k < int(l) && k < len(n.fields); k++ {
			es = append(es, rp.goExpr(n.fields[k]))
		}
		return fmt.Sprintf("%s{%s}", rp.typeStr(n.typ), strings.Join(es, ", "))
	case "ptrstruct":
		r, _ := n.val.intVal()
		if r == 0 || len(n.fields) == 0 {
			return "nil"
		}
		return "&" + rp.goExpr(n.fields[0])
	case "ptrscalar":
		r, _ := n.val.intVal()
		if r == 0 {
			return "nil"
		}
		et := n.typ.Underlying().(*types.Pointer).Elem()
		return fmt.Sprintf("func() *%s { v := %s; return &v }()", rp.typeStr(et), rp.goExpr(n.fields[0]))
	case "struct":
		st := n.typ.Underlying().(*types.Struct)
		var fs []string
		for i, c := range n.fields {
			if c.kind == "opaque" || !exportedOrLocal(st.Field(i), rp.pkg) {
				continue
			}
			if c.kind == "struct" {
				// nested struct from another package with hidden fields: skip
				if nn, ok := c.typ.(*types.Named); ok && nn.Obj().Pkg() != rp.pkg {
					continue
				}
			}
			fs = append(fs, st.Field(i).Name()+": "+rp.goExpr(c))
		}
		return fmt.Sprintf("%s{%s}", rp.typeStr(n.typ), strings.Join(fs, ", "))
	}
	return rp.zeroExpr(n.typ)
}

func maskBits(b int) uint64 {
	if b >= 64 {
		return ^uint64(0)
	}
	return (uint64(1) << uint(b)) - 1
}

// ---- replay driver ------------------------------------------------------------------------------------

func (eng *Engine) replayObligation(t target, name, kind, verif, prop string) replayResult {
	res := eng.replayObligationN(t, name, kind, verif, prop, 4)
	if !res.reproduced && strings.Contains(res.text, "answered \"unsat\"") {
		res = eng.replayObligationN(t, name, kind, verif, prop, 28)
	}
	return res
}

func (eng *Engine) replayObligationN(t target, name, kind, verif, prop string, N int) replayResult {
	vcq, err := eng.buildVCq(t.fn, t.ct, N)
	if err != nil {
		return replayResult{false, "no-failing-input-found: candidate search not available for this function: " + err.Error()}
	}
	var ob *Obligation
	for _, o := range vcq.obls {
		if o.Name == name {
			ob = o
		}
	}
	if ob == nil {
		return replayResult{false, "no-failing-input-found: obligation has no quantifier-free counterpart"}
	}
	rp := &replayer{eng: eng, vc: vcq, K: N, imps: map[string]bool{}}
	if t.fn.Pkg != nil {
		rp.pkg = t.fn.Pkg.Pkg
	} else {
		return replayResult{false, "no-failing-input-found: closures are not replayed"}
	}
	// entry state = first base state: find through a fresh spec env of a dummy frame is not available here;
	// the parameters' entry heaps are the @<id> versions of the base state, recorded in vcq.
	entry := vcq.entry
	var roots []*qnode
	var recipe string
	var holes []string
	if t.ct != nil && t.ct.Replay != "" {
		// replay recipe: a Go expression with ${spec-path} placeholders evaluated in the entry state
		recipe = t.ct.Replay
		env := &specEnv{vc: vcq, pkg: rp.pkg, vars: map[string]specVal{}, st: entry, old: entry, where: "replay recipe"}
		for name, pv := range vcq.paramVals {
			env.vars[name] = pv
		}
		var perr error
		func() {
			defer func() {
				if x := recover(); x != nil {
					perr = fmt.Errorf("%v", x)
				}
			}()
			for _, m := range regexp.MustCompile(`\$\{([^}]*)\}`).FindAllStringSubmatch(recipe, -1) {
				e, err := parseExpr(m[1])
				if err != nil {
					perr = err
					return
				}
				v := env.tr(e)
				holes = append(holes, m[0])
				roots = append(roots, rp.build(v.term, v.typ, 0, entry))
			}
		}()
		if perr != nil {
			return replayResult{false, "no-failing-input-found: bad replay recipe: " + perr.Error()}
		}
	} else {
		for _, p := range t.fn.Params {
			pv := vcq.paramVals[p.Name()]
			roots = append(roots, rp.build(pv.term, p.Type(), 0, entry))
		}
	}
	var sb strings.Builder
	for _, l := range vcq.out {
		sb.WriteString(l)
		sb.WriteString("\n")
	}
	sb.WriteString(fmt.Sprintf("(assert (and %s (not %s)))\n(check-sat)\n", ob.Guard, ob.Cond))
	var terms []string
	for _, n := range rp.nodes {
		terms = append(terms, n.term)
	}
	if len(terms) > 0 {
		sb.WriteString("(get-value (" + strings.Join(terms, " ") + "))\n")
	}
	dir := filepath.Join(verif, "work", prop, "replay")
	os.MkdirAll(dir, 0o755)
	qfile := filepath.Join(dir, sanitize(name)+".qf.smt2")
	os.WriteFile(qfile, []byte(sb.String()), 0o644)
	ctx, cancel := context.WithTimeout(context.Background(), 40*time.Second)
	defer cancel()
	out, _ := exec.CommandContext(ctx, "z3-new", "-smt2", "-t:10000", qfile).CombinedOutput()
	text := string(out)
	first := strings.TrimSpace(strings.SplitN(text, "\n", 2)[0])
	if first != "sat" {
		return replayResult{false, fmt.Sprintf("no-failing-input-found: bounded candidate search (lengths <= %d, quantifiers expanded) answered %q\nquery: %s", N, first, qfile)}
	}
	rest := text[strings.Index(text, "\n")+1:]
	sx := parseSexps(rest)
	if len(sx) == 0 || len(sx[0].list) != len(rp.nodes) {
		return replayResult{false, "no-failing-input-found: could not read the solver's model\n" + rest}
	}
	for i, pair := range sx[0].list {
		if len(pair.list) == 2 {
			rp.nodes[i].val = pair.list[1]
		} else {
			rp.nodes[i].val = &sexp{atom: "0"}
		}
	}
	var args []string
	for _, r := range roots {
		args = append(args, rp.goExpr(r))
	}
	if recipe != "" {
		call := recipe
		for i, h := range holes {
			call = strings.Replace(call, h, args[i], 1)
		}
		return eng.runReplayCall(t, rp, nil, call, name, kind, verif, prop)
	}
	return eng.runReplay(t, rp, args, name, kind, verif, prop)
}

func (eng *Engine) runReplay(t target, rp *replayer, args []string, name, kind, verif, prop string) replayResult {
	return eng.runReplayCall(t, rp, args, "", name, kind, verif, prop)
}

func (eng *Engine) runReplayCall(t target, rp *replayer, args []string, recipe string, name, kind, verif, prop string) replayResult {
	fn := t.fn
	var call string
	var decl strings.Builder
	for i, a := range args {
		decl.WriteString(fmt.Sprintf("\ta%d := %s\n", i, a))
	}
	var an []string
	for i := range args {
		an = append(an, fmt.Sprintf("a%d", i))
	}
	if fn.Signature.Recv() != nil {
		call = fmt.Sprintf("a0.%s(%s)", fn.Name(), strings.Join(an[1:], ", "))
	} else {
		call = fmt.Sprintf("%s(%s)", fn.Name(), strings.Join(an, ", "))
	}
	nres := fn.Signature.Results().Len()
	if recipe != "" {
		call = recipe
		nres = 0
		for _, p := range []string{"bytes", "time", "strings"} {
			if strings.Contains(recipe, p+".") {
				rp.imps[p] = true
			}
		}
	}
	var lhs []string
	for i := 0; i < nres; i++ {
		lhs = append(lhs, fmt.Sprintf("r%d", i))
	}
	assign := ""
	print := ""
	if nres > 0 {
		assign = strings.Join(lhs, ", ") + " := "
		var ps []string
		for i := 0; i < nres; i++ {
			ps = append(ps, fmt.Sprintf("fmt.Sprintf(\"r%d=%%#v\", r%d)", i, i))
			rt := fn.Signature.Results().At(i).Type()
			switch u := rt.Underlying().(type) {
			case *types.Basic:
				switch {
				case u.Info()&types.IsInteger != 0:
					print += fmt.Sprintf("\tfmt.Printf(\"GVC-RESULT %d int %%d\\n\", r%d)\n", i, i)
				case u.Info()&types.IsBoolean != 0:
					print += fmt.Sprintf("\tfmt.Printf(\"GVC-RESULT %d bool %%v\\n\", r%d)\n", i, i)
				}
			case *types.Interface, *types.Pointer, *types.Map, *types.Slice:
				print += fmt.Sprintf("\tfmt.Printf(\"GVC-RESULT %d nil %%v\\n\", r%d == nil)\n", i, i)
			}
		}
		print += "\tfmt.Println(\"GVC-REPLAY returned:\", " + strings.Join(ps, ", ") + ")\n"
	} else {
		print = "\tfmt.Println(\"GVC-REPLAY returned\")\n"
	}
	var imports strings.Builder
	imports.WriteString("\t\"fmt\"\n\t\"testing\"\n")
	for p := range rp.imps {
		if p != "fmt" && p != "testing" {
			imports.WriteString(fmt.Sprintf("\t%q\n", p))
		}
	}
	src := fmt.Sprintf(`package %s

// Generated by gvc: replay of the solver's candidate counterexample for
//   %s
// against the real code (injected with go test -overlay; nothing is written into /repo).

import (
%s)

func TestGvcReplay(t *testing.T) {
	defer func() {
		if r := recover(); r != nil {
			fmt.Println("GVC-REPLAY panic:", r)
		}
	}()
%s	%s%s
%s}
`, rp.pkg.Name(), name, imports.String(), decl.String(), assign, call, print)
	replayDir := filepath.Join(verif, "replay", prop)
	os.MkdirAll(replayDir, 0o755)
	testFile := filepath.Join(replayDir, sanitize(name)+"_replay_test.go")
	os.WriteFile(testFile, []byte(src), 0o644)
	pkgDir := filepath.Dir(eng.fset.Position(fn.Pos()).Filename)
	ov := map[string]map[string]string{"Replace": {filepath.Join(pkgDir, "zz_gvc_replay_test.go"): testFile}}
	ovb, _ := json.Marshal(ov)
	ovFile := filepath.Join(verif, "work", prop, "replay", sanitize(name)+".overlay.json")
	os.WriteFile(ovFile, ovb, 0o644)
	ctx, cancel := context.WithTimeout(context.Background(), 300*time.Second)
	defer cancel()
	cmd := exec.CommandContext(ctx, "go", "test", "-overlay", ovFile, "-vet=off", "-timeout", "60s", "-count=1", "-v", "-run", "^TestGvcReplay$", ".")
	cmd.Dir = pkgDir
	cmd.Env = append(os.Environ(), "GOFLAGS=-mod=mod", "GOPROXY=off", "GOSUMDB=off", "GOTOOLCHAIN=local")
	var buf bytes.Buffer
	cmd.Stdout = &buf
	cmd.Stderr = &buf
	_ = cmd.Run()
	outS := buf.String()
	cmdline := fmt.Sprintf("cd %s && go test -overlay %s -vet=off -timeout 60s -count=1 -v -run '^TestGvcReplay$' .", pkgDir, ovFile)
	report := fmt.Sprintf("candidate input (from the quantifier-free bounded query):\n%s\nreplay test: %s\nreplay command: %s\noutput:\n%s\n", decl.String(), testFile, cmdline, trimOutput(outS))
	if kind == "safety" && (strings.Contains(outS, "GVC-REPLAY panic:") || strings.Contains(outS, "panic:") || strings.Contains(outS, "fatal error")) {
		return replayResult{true, report}
	}
	if kind == "post" && strings.Contains(outS, "GVC-REPLAY returned") {
		if ok, why := eng.evalPost(t, rp, name, outS, verif, prop); ok {
			return replayResult{true, report + "\n" + why}
		} else if why != "" {
			report += "\n" + why
		}
	}
	if strings.Contains(outS, "test timed out") || ctx.Err() != nil {
		if kind == "variant" {
			return replayResult{true, report}
		}
	}
	return replayResult{false, "no-failing-input-found: the candidate did not misbehave on the real code (or the clause is not a run-time panic)\n" + report}
}

func trimOutput(s string) string {
	ls := strings.Split(s, "\n")
	if len(ls) > 30 {
		ls = append(ls[:30], "...")
	}
	return strings.Join(ls, "\n")
}

var _ = ssa.GlobalDebug

func (x *sexp) String() string {
	if x.list == nil {
		return x.atom
	}
	var ps []string
	for _, c := range x.list {
		ps = append(ps, c.String())
	}
	return "(" + strings.Join(ps, " ") + ")"
}

// evalPost decides whether the observed results of the real run violate the postcondition clause, by asking
// the solver to evaluate the clause with the inputs pinned to the candidate and the results to what was observed.
// Only used when the clause reads no heap the function may write (then entry and exit heaps agree for it).
func (eng *Engine) evalPost(t target, rp *replayer, name, out, verif, prop string) (bool, string) {
	label := name[strings.LastIndex(name, "post:")+5:]
	if i := strings.Index(label, "@ret"); i >= 0 {
		label = label[:i]
	}
	var cl *Clause
	for _, c := range t.ct.Ensures {
		if c.Label == label {
			cl = c
		}
	}
	if cl == nil {
		return false, ""
	}
	vc := newVC(eng, t.fn, t.ct)
	vc.qf = rp.K
	ok := false
	why := ""
	func() {
		defer func() {
			if r := recover(); r != nil {
				switch e := r.(type) {
				case unsupportedErr:
					why = "clause evaluation unavailable: " + e.msg
				case specErr:
					why = "clause evaluation unavailable: " + e.msg
				default:
					panic(r)
				}
			}
		}()
		vc.emit(preludeBase)
		st := vc.baseState()
		env := &specEnv{vc: vc, pkg: rp.pkg, vars: map[string]specVal{}, st: st, old: st, where: "replay evaluation"}
		rp2 := &replayer{eng: eng, vc: vc, K: rp.K, pkg: rp.pkg, imps: map[string]bool{}}
		for _, p := range t.fn.Params {
			n := vc.fresh("p."+p.Name(), vc.sortOf(p.Type()))
			env.vars[p.Name()] = specVal{term: n, typ: p.Type()}
			rp2.build(n, p.Type(), 0, st)
		}
		if len(rp2.nodes) != len(rp.nodes) {
			why = "clause evaluation unavailable: input shapes differ"
			return
		}
		// heaps read by the clause must not be written by the function
		sym := map[string]string{}
		var order []string
		probe := &specEnv{vc: vc, pkg: rp.pkg, vars: env.vars, symHeaps: sym, symOrder: &order, symOld: sym, symOldOrder: &order, where: "replay evaluation"}
		sig := t.fn.Signature
		var results []Val
		var obs []string
		for i := 0; i < sig.Results().Len(); i++ {
			rt := sig.Results().At(i).Type()
			n := vc.fresh("res", vc.sortOf(rt))
			results = append(results, Val{t: n})
			for _, l := range strings.Split(out, "\n") {
				var idx int
				var k, v string
				if _, err := fmt.Sscanf(l, "GVC-RESULT %d %s %s", &idx, &k, &v); err == nil && idx == i {
					switch k {
					case "int":
						iv, _ := strconv.ParseInt(v, 10, 64)
						obs = append(obs, eq(n, num(iv)))
					case "bool":
						obs = append(obs, eq(n, v))
					case "nil":
						var isNil string
						switch rt.Underlying().(type) {
						case *types.Interface:
							isNil = eq(sx("i-tag", n), "0")
						case *types.Slice:
							isNil = eq(sArr(n), "0")
						default:
							isNil = eq(n, "0")
						}
						if v == "true" {
							obs = append(obs, isNil)
						} else {
							obs = append(obs, not(isNil))
						}
					}
				}
			}
		}
		bindResults(probe, sig, results)
		probe.trBool(cl.Expr)
		writes := eng.bodyEffects(t.fn)
		for _, h := range order {
			if writes[h] || writes["*"] {
				why = "clause evaluation unavailable: the clause reads heap " + h + ", which the function may write"
				return
			}
		}
		bindResults(env, sig, results)
		c := env.trBool(cl.Expr)
		var sb strings.Builder
		for _, l := range vc.out {
			sb.WriteString(l + "\n")
		}
		for i, n := range rp2.nodes {
			sb.WriteString(fmt.Sprintf("(assert (= %s %s))\n", n.term, rp.nodes[i].val.String()))
		}
		for _, o := range obs {
			sb.WriteString(fmt.Sprintf("(assert %s)\n", o))
		}
		sb.WriteString("(push 1)\n(assert " + c + ")\n(check-sat)\n(pop 1)\n(push 1)\n(assert (not " + c + "))\n(check-sat)\n(pop 1)\n")
		dir := filepath.Join(verif, "work", prop, "replay")
		qfile := filepath.Join(dir, sanitize(name)+".eval.smt2")
		os.WriteFile(qfile, []byte(sb.String()), 0o644)
		ctx, cancel := context.WithTimeout(context.Background(), 40*time.Second)
		defer cancel()
		o, _ := exec.CommandContext(ctx, "z3-new", "-smt2", "-t:15000", qfile).CombinedOutput()
		ls := strings.Fields(string(o))
		if len(ls) >= 2 && ls[0] == "unsat" && ls[1] == "sat" {
			ok = true
			why = "REPLAY EVALUATION: with the inputs above and the results observed on the real code, the clause\n    " + cl.Src + "\nevaluates to false (solver: clause unsat, negation sat; query " + qfile + ")"
		} else {
			why = "clause evaluation inconclusive: " + strings.Join(ls, " ")
		}
	}()
	return ok, why
}
