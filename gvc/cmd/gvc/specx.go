package main

// Translation of specification expressions to SMT terms.

import (
	"fmt"
	"go/constant"
	"go/token"
	"go/types"
	"strings"

	"golang.org/x/tools/go/ssa"
)

type specVal struct {
	term string
	typ  types.Type // nil: mathematical int / bool (see kind)
	kind string     // "int", "bool" when typ == nil
	loc  bool       // typ is a struct type and term is a ref where it lives
	addr *Addr      // pointer-to-cell value
}

type specErr struct{ msg string }

type specEnv struct {
	vc          *VC
	fr          *frame
	pkg         *types.Package
	vars        map[string]specVal
	st          *hstate
	old         *hstate
	symHeaps    map[string]string // symbolic mode (recursive spec function bodies): heap name -> bound var
	symOrder    *[]string
	symOld      map[string]string // symbolic mode: heaps of the old() state
	symOldOrder *[]string
	symPrefix   string
	atBlock     *ssa.BasicBlock
	phiOverride map[*ssa.Phi]string
	depth       int
	where       string
}

func (e *specEnv) fail(f string, a ...interface{}) {
	panic(specErr{fmt.Sprintf(f, a...) + " [" + e.where + "]"})
}

func (e *specEnv) heap(name, sort string) string {
	if e.symHeaps != nil {
		if v, ok := e.symHeaps[name]; ok {
			return v
		}
		pfx := e.symPrefix
		if pfx == "" {
			pfx = "h!"
		}
		v := pfx + sanitize(name)
		e.symHeaps[name] = v
		*e.symOrder = append(*e.symOrder, name)
		if _, ok := e.vc.heapSort[name]; !ok {
			e.vc.heapSort[name] = sort
		}
		return v
	}
	if e.st == nil {
		e.fail("heap access (%s) in a state-free context", name)
	}
	return e.vc.lookup(e.st, name, sort)
}

func (e *specEnv) clone() *specEnv {
	n := *e
	n.vars = map[string]specVal{}
	for k, v := range e.vars {
		n.vars[k] = v
	}
	return &n
}

func mathInt(t string) specVal  { return specVal{term: t, kind: "int"} }
func mathBool(t string) specVal { return specVal{term: t, kind: "bool"} }

func (v specVal) isInt() bool {
	if v.typ == nil {
		return v.kind == "int"
	}
	_, ok := intInfoOf(v.typ)
	return ok
}
func (v specVal) isBool() bool {
	if v.typ == nil {
		return v.kind == "bool"
	}
	return isBool(v.typ)
}

func (e *specEnv) trBool(x Expr) string {
	v := e.tr(x)
	if !v.isBool() {
		e.fail("expected boolean: %s", x)
	}
	return v.term
}

func (e *specEnv) trInt(x Expr) string {
	v := e.tr(x)
	if !v.isInt() {
		e.fail("expected integer: %s", x)
	}
	return v.term
}

func (e *specEnv) resolveType(name string) types.Type {
	switch name {
	case "int":
		return types.Typ[types.Int]
	case "bool":
		return types.Typ[types.Bool]
	case "byte":
		return types.Typ[types.Byte]
	case "string":
		return types.Typ[types.String]
	case "mathint":
		return nil
	}
	pkg := e.pkg
	tv, err := types.Eval(e.vc.eng.fset, pkg, token.NoPos, name)
	if err != nil || !tv.IsType() {
		// try other loaded packages by qualified name  pkgname.Type
		if i := strings.Index(name, "."); i > 0 {
			prefix := ""
			rest := name
			for strings.HasPrefix(rest, "*") || strings.HasPrefix(rest, "[]") {
				if rest[0] == '*' {
					prefix += "*"
					rest = rest[1:]
				} else {
					prefix += "[]"
					rest = rest[2:]
				}
			}
			j := strings.Index(rest, ".")
			if p := e.vc.eng.pkgByName(rest[:j]); p != nil {
				if o := p.Scope().Lookup(rest[j+1:]); o != nil {
					t := o.Type()
					for k := len(prefix); k > 0; {
						if strings.HasSuffix(prefix[:k], "[]") {
							t = types.NewSlice(t)
							k -= 2
						} else {
							t = types.NewPointer(t)
							k--
						}
					}
					return t
				}
			}
		}
		e.fail("cannot resolve type %q: %v", name, err)
	}
	return tv.Type
}

func (e *specEnv) sortOfName(name string) (string, types.Type) {
	if name == "mathint" {
		return "Int", nil
	}
	if name == "introw" {
		return "(Array Int Int)", nil
	}
	t := e.resolveType(name)
	return e.vc.sortOf(t), t
}

// fieldPath resolves a (possibly promoted) field.
func fieldPath(t types.Type, pkg *types.Package, name string) ([]int, *types.Var) {
	obj, idx, _ := types.LookupFieldOrMethod(t, true, pkg, name)
	if v, ok := obj.(*types.Var); ok && v.IsField() {
		return idx, v
	}
	return nil, nil
}

func (e *specEnv) sel(x specVal, name string, src Expr) specVal {
	vc := e.vc
	if x.typ == nil {
		e.fail("field selection on non-Go value: %s", src)
	}
	t := x.typ
	ref := x.term
	located := x.loc
	if p, ok := t.Underlying().(*types.Pointer); ok {
		t = p.Elem()
		located = true
	}
	if _, ok := isStruct(t); !ok {
		e.fail("selector %s on non-struct type %s", name, t)
	}
	pkg := e.pkg
	if n, ok := t.(*types.Named); ok && n.Obj().Pkg() != nil {
		pkg = n.Obj().Pkg()
	}
	path, _ := fieldPath(t, pkg, name)
	if path == nil {
		e.fail("no field %s in %s", name, t)
	}
	cur := specVal{term: ref, typ: t, loc: located}
	for _, i := range path {
		// implicit deref of embedded pointers
		if p, ok := cur.typ.Underlying().(*types.Pointer); ok {
			cur = specVal{term: cur.term, typ: p.Elem(), loc: true}
		}
		st := cur.typ.Underlying().(*types.Struct)
		ft := st.Field(i).Type()
		if cur.loc {
			if _, ok := isStruct(ft); ok {
				cur = specVal{term: sx(vc.declSubRef(cur.typ, i), cur.term), typ: ft, loc: true}
			} else {
				h := e.heap(fieldHeapName(cur.typ, i), "(Array Int "+vc.sortOf(ft)+")")
				cur = specVal{term: sx("select", h, cur.term), typ: ft}
			}
		} else {
			cur = specVal{term: sx(vc.structSel(cur.typ, i), cur.term), typ: ft}
		}
	}
	return cur
}

// rvalue turns a located struct into a struct value.
func (e *specEnv) rvalue(v specVal) specVal {
	if v.loc {
		return specVal{term: e.loadStructSpec(v.term, v.typ), typ: v.typ}
	}
	return v
}

func (e *specEnv) loadStructSpec(ref string, t types.Type) string {
	vc := e.vc
	s := t.Underlying().(*types.Struct)
	srt := vc.structSort(t)
	if s.NumFields() == 0 {
		return "mk." + srt
	}
	var fs []string
	for i := 0; i < s.NumFields(); i++ {
		ft := s.Field(i).Type()
		if _, ok := isStruct(ft); ok {
			fs = append(fs, e.loadStructSpec(sx(vc.declSubRef(t, i), ref), ft))
		} else {
			fs = append(fs, sx("select", e.heap(fieldHeapName(t, i), "(Array Int "+vc.sortOf(ft)+")"), ref))
		}
	}
	return sx("mk."+srt, fs...)
}

func (e *specEnv) index(x, i specVal, src Expr) specVal {
	vc := e.vc
	if x.typ == nil {
		e.fail("indexing a non-Go value: %s", src)
	}
	switch u := x.typ.Underlying().(type) {
	case *types.Slice:
		et := u.Elem()
		idx := sx("+", sOff(x.term), i.term)
		if _, ok := isStruct(et); ok {
			return specVal{term: sx(vc.declElemRef(et), sArr(x.term), idx), typ: et, loc: true}
		}
		srt := vc.sortOf(et)
		h := e.heap(elemHeapName(et), "(Array Int (Array Int "+srt+"))")
		return specVal{term: sx(vc.eltFn(srt), h, x.term, i.term), typ: et}
	case *types.Basic:
		if isString(x.typ) {
			return specVal{term: sx("sat", x.term, i.term), typ: types.Typ[types.Byte]}
		}
	case *types.Map:
		ks := vc.sortOf(u.Key())
		vs := vc.sortOf(u.Elem())
		h := e.heap(mapValHeap(u), "(Array Int (Array "+ks+" "+vs+"))")
		return specVal{term: sx("select", sx("select", h, x.term), i.term), typ: u.Elem()}
	case *types.Array:
		return specVal{term: sx("select", x.term, i.term), typ: u.Elem()}
	}
	e.fail("cannot index %s", x.typ)
	return specVal{}
}

func (e *specEnv) lookupIdent(name string) (specVal, bool) {
	if v, ok := e.vars[name]; ok {
		return v, true
	}
	switch name {
	case "true":
		return mathBool("true"), true
	case "false":
		return mathBool("false"), true
	case "nil":
		return specVal{term: "nil", kind: "nil"}, true
	case "MaxInt64":
		return mathInt("9223372036854775807"), true
	case "MinInt64":
		return mathInt("(- 9223372036854775808)"), true
	}
	// source-level local variable (loop invariants)
	if e.fr != nil && e.atBlock != nil {
		if v, ok := e.fr.lookupLocal(name, e.atBlock, e.phiOverride, e.st); ok {
			return v, true
		}
	}
	// package-level constant or variable
	if e.pkg != nil {
		if o := e.pkg.Scope().Lookup(name); o != nil {
			switch c := o.(type) {
			case *types.Const:
				switch c.Val().Kind() {
				case constant.Int:
					s, _ := constInt(c.Val())
					if _, ok := intInfoOf(c.Type()); ok {
						return specVal{term: s, typ: c.Type()}, true
					}
					return mathInt(s), true
				case constant.String:
					return specVal{term: e.vc.strLit(constant.StringVal(c.Val())), typ: types.Typ[types.String]}, true
				case constant.Bool:
					if constant.BoolVal(c.Val()) {
						return mathBool("true"), true
					}
					return mathBool("false"), true
				}
			case *types.Var:
				if sp := e.vc.eng.prog.Package(e.pkg); sp != nil {
					if g, ok := sp.Members[name].(*ssa.Global); ok {
						et := deref(g.Type())
						if _, isSt := isStruct(et); isSt {
							if e.fr != nil {
								return specVal{term: e.fr.val(g).t, typ: et, loc: true}, true
							}
						} else {
							return specVal{term: e.heap(globalHeapName(g), e.vc.sortOf(et)), typ: et}, true
						}
					}
				}
			}
		}
	}
	return specVal{}, false
}

// coerce nil to the type of the other operand
func (e *specEnv) unify(a, b specVal) (specVal, specVal) {
	if a.kind == "nil" && b.kind != "nil" {
		a = e.nilOf(b)
	} else if b.kind == "nil" && a.kind != "nil" {
		b = e.nilOf(a)
	}
	return a, b
}

func (e *specEnv) nilOf(o specVal) specVal {
	if o.typ == nil {
		return mathInt("0")
	}
	switch o.typ.Underlying().(type) {
	case *types.Slice:
		return specVal{term: "NILSLICE", typ: o.typ}
	case *types.Interface:
		return specVal{term: "nil-iface", typ: o.typ}
	}
	return specVal{term: "0", typ: o.typ}
}

func (e *specEnv) equal(a, b specVal) string {
	a, b = e.unify(a, b)
	if a.term == "NILSLICE" {
		return eq(sArr(b.term), "0")
	}
	if b.term == "NILSLICE" {
		return eq(sArr(a.term), "0")
	}
	if a.typ != nil {
		if _, ok := a.typ.Underlying().(*types.Interface); ok && b.term == "nil-iface" {
			return eq(sx("i-tag", a.term), "0")
		}
	}
	if b.typ != nil {
		if _, ok := b.typ.Underlying().(*types.Interface); ok && a.term == "nil-iface" {
			return eq(sx("i-tag", b.term), "0")
		}
	}
	a, b = e.rvalue(a), e.rvalue(b)
	return eq(a.term, b.term)
}

func (e *specEnv) tr(x Expr) specVal {
	vc := e.vc
	switch n := x.(type) {
	case *EInt:
		var v int64
		if strings.HasPrefix(n.V, "0x") {
			fmt.Sscanf(n.V[2:], "%x", &v)
			return mathInt(num(v))
		}
		return mathInt(n.V)
	case *EStr:
		return specVal{term: vc.strLit(n.V), typ: types.Typ[types.String]}
	case *EIdent:
		v, ok := e.lookupIdent(n.Name)
		if !ok {
			e.fail("unknown identifier %q", n.Name)
		}
		return v
	case *EUn:
		switch n.Op {
		case "!":
			return mathBool(not(e.trBool(n.X)))
		case "-":
			return mathInt(sx("-", e.trInt(n.X)))
		case "*":
			v := e.tr(n.X)
			if v.typ == nil {
				e.fail("deref of non-pointer")
			}
			p, ok := v.typ.Underlying().(*types.Pointer)
			if !ok {
				e.fail("deref of non-pointer %s", v.typ)
			}
			if _, ok := isStruct(p.Elem()); ok {
				return specVal{term: v.term, typ: p.Elem(), loc: true}
			}
			if v.addr != nil {
				e.fail("deref of cell address in spec not supported")
			}
			h := e.heap(ptrHeapName(p.Elem()), "(Array Int "+vc.sortOf(p.Elem())+")")
			return specVal{term: sx("select", h, v.term), typ: p.Elem()}
		case "&":
			v := e.tr(n.X)
			if v.loc {
				return specVal{term: v.term, typ: types.NewPointer(v.typ)}
			}
			e.fail("& of non-located value")
		}
	case *EBin:
		switch n.Op {
		case "&&":
			return mathBool(and(e.trBool(n.X), e.trBool(n.Y)))
		case "||":
			return mathBool(or(e.trBool(n.X), e.trBool(n.Y)))
		case "==>":
			return mathBool(implies(e.trBool(n.X), e.trBool(n.Y)))
		case "<==>":
			return mathBool(eq(e.trBool(n.X), e.trBool(n.Y)))
		case "==":
			return mathBool(e.equal(e.tr(n.X), e.tr(n.Y)))
		case "!=":
			return mathBool(not(e.equal(e.tr(n.X), e.tr(n.Y))))
		case "<", "<=", ">", ">=":
			a, b := e.tr(n.X), e.tr(n.Y)
			if a.typ != nil && isFloat(a.typ) || b.typ != nil && isFloat(b.typ) {
				return mathBool(sx(n.Op, a.term, b.term))
			}
			if a.typ != nil && b.typ != nil && isString(a.typ) && isString(b.typ) {
				vc.declareOnce("strless", "(declare-fun strless (Int Int) Bool)")
				switch n.Op {
				case "<":
					return mathBool(sx("strless", a.term, b.term))
				case ">":
					return mathBool(sx("strless", b.term, a.term))
				case "<=":
					return mathBool(not(sx("strless", b.term, a.term)))
				default:
					return mathBool(not(sx("strless", a.term, b.term)))
				}
			}
			if !a.isInt() || !b.isInt() {
				e.fail("comparison of non-integers: %s", x)
			}
			return mathBool(sx(n.Op, a.term, b.term))
		case "+", "-", "*":
			return mathInt(sx(n.Op, e.trInt(n.X), e.trInt(n.Y)))
		case "/":
			return mathInt(sx("godiv", e.trInt(n.X), e.trInt(n.Y)))
		case "%":
			return mathInt(sx("gorem", e.trInt(n.X), e.trInt(n.Y)))
		}
	case *ECmpChain:
		var cs []string
		prev := e.tr(n.Xs[0])
		for i, op := range n.Ops {
			next := e.tr(n.Xs[i+1])
			switch op {
			case "==":
				cs = append(cs, e.equal(prev, next))
			case "!=":
				cs = append(cs, not(e.equal(prev, next)))
			default:
				if !prev.isInt() || !next.isInt() {
					e.fail("comparison of non-integers: %s", x)
				}
				cs = append(cs, sx(op, prev.term, next.term))
			}
			prev = next
		}
		return mathBool(and(cs...))
	case *ETern:
		c := e.trBool(n.C)
		a, b := e.tr(n.A), e.tr(n.B)
		a, b = e.unify(a, b)
		a, b = e.rvalue(a), e.rvalue(b)
		r := a
		r.term = ite(c, a.term, b.term)
		return r
	case *EQuant:
		ne := e.clone()
		var bs []string
		var guards []string
		for _, qv := range n.Vars {
			srt, t := e.sortOfName(qv.Typ)
			bn := "q!" + qv.Name
			bs = append(bs, fmt.Sprintf("(%s %s)", bn, srt))
			if qv.Typ == "introw" {
				ne.vars[qv.Name] = specVal{term: bn, kind: "row"}
			} else if t == nil || qv.Typ == "int" {
				ne.vars[qv.Name] = mathInt(bn)
			} else {
				ne.vars[qv.Name] = specVal{term: bn, typ: t}
				if g := vc.typeFacts(bn, t, nil); g != "true" {
					guards = append(guards, g)
				}
			}
		}
		if vc.qf > 0 {
			allInt := true
			for _, qv := range n.Vars {
				if v := ne.vars[qv.Name]; v.typ != nil || v.kind != "int" {
					allInt = false
				}
			}
			if allInt {
				// expand over a small range (candidate search only)
				var parts []string
				var rec func(k int, env *specEnv)
				rec = func(k int, env *specEnv) {
					if k == len(n.Vars) {
						parts = append(parts, env.trBool(n.Body))
						return
					}
					for x := -1; x < vc.qf+2; x++ {
						e2 := env.clone()
						e2.vars[n.Vars[k].Name] = mathInt(num(int64(x)))
						rec(k+1, e2)
					}
				}
				rec(0, ne)
				if n.Forall {
					return mathBool(and(parts...))
				}
				return mathBool(or(parts...))
			}
		}
		body := ne.trBool(n.Body)
		if n.Forall {
			return mathBool(fmt.Sprintf("(forall (%s) %s)", strings.Join(bs, " "), implies(and(guards...), body)))
		}
		return mathBool(fmt.Sprintf("(exists (%s) %s)", strings.Join(bs, " "), and(append(guards, body)...)))
	case *ESel:
		if n.Ghost {
			return e.ghostSel(n)
		}
		// package-qualified identifier?
		if id, ok := n.X.(*EIdent); ok {
			if _, isVar := e.lookupIdent(id.Name); !isVar {
				if p := vc.eng.pkgByName(id.Name); p != nil {
					ne := e.clone()
					ne.pkg = p
					v, ok := ne.lookupIdent(n.Name)
					if !ok {
						e.fail("unknown identifier %s.%s", id.Name, n.Name)
					}
					return v
				}
			}
		}
		if n.Name == "ALLFIELDS" || n.Name == "ALLELEMS" {
			e.fail("%s only allowed in modifies clauses", n.Name)
		}
		return e.sel(e.tr(n.X), n.Name, x)
	case *EIndex:
		return e.index(e.tr(n.X), e.tr(n.I), x)
	case *ESlice:
		v := e.tr(n.X)
		if v.typ == nil {
			e.fail("slicing a non-slice")
		}
		if _, ok := v.typ.Underlying().(*types.Slice); !ok {
			e.fail("slicing a non-slice %s", v.typ)
		}
		lo := "0"
		if n.Lo != nil {
			lo = e.trInt(n.Lo)
		}
		hi := sLen(v.term)
		if n.Hi != nil {
			hi = e.trInt(n.Hi)
		}
		mx := sCap(v.term)
		if n.Max != nil {
			mx = e.trInt(n.Max)
		}
		return specVal{term: sx("mk-slice", sArr(v.term), sx("+", sOff(v.term), lo), sx("-", hi, lo), sx("-", mx, lo)), typ: v.typ}
	case *EIs:
		v := e.tr(n.X)
		if v.typ == nil {
			e.fail("'is' on non-interface")
		}
		if _, ok := v.typ.Underlying().(*types.Interface); !ok {
			e.fail("'is' on non-interface %s", v.typ)
		}
		t := e.resolveType(n.Typ)
		return mathBool(eq(sx("i-tag", v.term), vc.typeTag(t)))
	case *ECall:
		return e.call(n)
	}
	e.fail("cannot translate %s", x)
	return specVal{}
}

func (e *specEnv) ghostSel(n *ESel) specVal {
	vc := e.vc
	g := vc.eng.cs.Ghosts[n.Name]
	if g == nil {
		e.fail("unknown ghost field #%s", n.Name)
	}
	x := e.tr(n.X)
	key := x.term
	if x.typ != nil {
		if _, ok := x.typ.Underlying().(*types.Interface); ok {
			key = sx("i-val", x.term)
		}
	}
	ne := e.clone()
	if p := vc.eng.pkgByPath(g.Pkg); p != nil {
		ne.pkg = p
	}
	srt, t := ne.sortOfName(g.Typ)
	h := e.heap("Gh."+g.Owner+"."+g.Name, "(Array Int "+srt+")")
	if t == nil {
		return mathInt(sx("select", h, key))
	}
	return specVal{term: sx("select", h, key), typ: t}
}

func (e *specEnv) call(n *ECall) specVal {
	vc := e.vc
	arg := func(i int) specVal {
		if i >= len(n.Args) {
			e.fail("%s: missing argument %d", n.Fn, i)
		}
		return e.tr(n.Args[i])
	}
	switch n.Fn {
	case "old":
		if e.symHeaps != nil && e.symOld != nil {
			ne := e.clone()
			ne.symHeaps = e.symOld
			ne.symOrder = e.symOldOrder
			ne.symPrefix = "ho!"
			ne.symOld = nil
			return ne.tr(n.Args[0])
		}
		if e.old == nil {
			e.fail("old() not available here")
		}
		ne := e.clone()
		ne.st = e.old
		return ne.tr(n.Args[0])
	case "len":
		v := arg(0)
		if v.typ == nil {
			e.fail("len of non-Go value")
		}
		switch u := v.typ.Underlying().(type) {
		case *types.Slice:
			return mathInt(sLen(v.term))
		case *types.Basic:
			if isString(v.typ) {
				return mathInt(sx("slen", v.term))
			}
		case *types.Array:
			return mathInt(num(u.Len()))
		case *types.Map:
			vc.declareOnce("mapcard", "(declare-fun mapcard (Int) Int)")
			return mathInt(sx("mapcard", v.term))
		}
		e.fail("len of %s", v.typ)
	case "cap":
		return mathInt(sCap(arg(0).term))
	case "arr":
		return mathInt(sArr(arg(0).term))
	case "off":
		return mathInt(sOff(arg(0).term))
	case "string":
		// string(d): the string with the contents of byte slice d in the current state
		v := arg(0)
		if v.typ != nil && isString(v.typ) {
			return v
		}
		h := e.heap("E.uint8", "(Array Int (Array Int Int))")
		return specVal{term: vc.b2s(h, v.term), typ: types.Typ[types.String]}
	case "cell":
		// cell(T, a, p): element at absolute position p of array a holding elements of (scalar) type T
		id, ok := n.Args[0].(*EIdent)
		if !ok {
			e.fail("cell needs a type name as first argument")
		}
		t := e.resolveType(id.Name)
		srt := vc.sortOf(t)
		h := e.heap(elemHeapName(t), "(Array Int (Array Int "+srt+"))")
		return specVal{term: sx("select", sx("select", h, e.trInt(n.Args[1])), e.trInt(n.Args[2])), typ: t}
	case "seen":
		// seen(k): key k was already produced by the map range loop this invariant belongs to
		if e.fr == nil || e.atBlock == nil {
			e.fail("seen() is only available in loop invariants of map range loops")
		}
		it := e.fr.rangeIterAt(e.atBlock)
		if it == "" {
			e.fail("seen(): no map range iterator for this loop")
		}
		k := arg(0)
		ks := "Int"
		if k.typ != nil {
			ks = vc.sortOf(k.typ)
		}
		h := e.heap("Gh.iter.seen."+sanitize(ks), "(Array Int (Array "+ks+" Bool))")
		return mathBool(sx("select", sx("select", h, it), k.term))
	case "rowof":
		// rowof(T, a): the whole element row of array a (element type T) as a value; spec functions over rows are
		// insensitive to heap versions that leave the row unchanged
		id, ok := n.Args[0].(*EIdent)
		if !ok {
			e.fail("rowof needs a type name as first argument")
		}
		t := e.resolveType(id.Name)
		srt := vc.sortOf(t)
		h := e.heap(elemHeapName(t), "(Array Int (Array Int "+srt+"))")
		return specVal{term: sx("select", h, e.trInt(n.Args[1])), kind: "row"}
	case "rowat":
		r := arg(0)
		if r.kind != "row" {
			e.fail("rowat needs a row")
		}
		return mathInt(sx("select", r.term, e.trInt(n.Args[1])))
	case "bcell":
		// bcell(a, p): byte at absolute position p of byte array a (robust under re-slicing)
		h := e.heap("E.uint8", "(Array Int (Array Int Int))")
		return specVal{term: sx("select", sx("select", h, e.trInt(n.Args[0])), e.trInt(n.Args[1])), typ: types.Typ[types.Byte]}
	case "wrap64":
		return mathInt(sx("wrap_s64", e.trInt(n.Args[0])))
	case "wrapu8":
		return mathInt(sx("wrap_u8", e.trInt(n.Args[0])))
	case "min":
		return mathInt(sx("imin", e.trInt(n.Args[0]), e.trInt(n.Args[1])))
	case "max":
		return mathInt(sx("imax", e.trInt(n.Args[0]), e.trInt(n.Args[1])))
	case "mod":
		return mathInt(sx("mod", e.trInt(n.Args[0]), e.trInt(n.Args[1])))
	case "div":
		return mathInt(sx("div", e.trInt(n.Args[0]), e.trInt(n.Args[1])))
	case "has":
		m, k := arg(0), arg(1)
		mt, ok := m.typ.Underlying().(*types.Map)
		if !ok {
			e.fail("has() on non-map")
		}
		ks := vc.sortOf(mt.Key())
		h := e.heap(mapHasHeap(mt), "(Array Int (Array "+ks+" Bool))")
		return mathBool(and(not(eq(m.term, "0")), sx("select", sx("select", h, m.term), k.term)))
	case "valid":
		// the value is a well-typed value of its Go type in the current state (slice header well-formed and its
		// array allocated, reference nil or allocated, integer in range)
		v := e.rvalue(arg(0))
		if v.typ == nil {
			e.fail("valid() needs a typed value")
		}
		return mathBool(vc.typeFacts(v.term, v.typ, e.st))
	case "allocated":
		v := arg(0)
		vc.pinTerm(sx("root", e.refOf(v)))
		return mathBool(sx("select", e.heap("alloc", allocSort), sx("root", e.refOf(v))))
	case "fresh":
		if e.old == nil {
			e.fail("fresh() needs an old state")
		}
		v := arg(0)
		ne := e.clone()
		ne.st = e.old
		r := e.refOf(v)
		return mathBool(and(not(eq(r, "0")), not(sx("select", ne.heap("alloc", allocSort), sx("root", r)))))
	case "ref":
		return mathInt(e.refOf(arg(0)))
	case "root":
		return mathInt(sx("root", e.refOf(arg(0))))
	case "typetag":
		return mathInt(sx("i-tag", arg(0).term))
	case "payload":
		return mathInt(sx("i-val", arg(0).term))
	case "unbox":
		// unbox(x, T): the value of dynamic type T held by interface x
		v := arg(0)
		tname := ""
		switch a := n.Args[1].(type) {
		case *EIdent:
			tname = a.Name
		case *EUn:
			if id, ok := a.X.(*EIdent); ok && a.Op == "*" {
				tname = "*" + id.Name
			}
		}
		if tname == "" {
			e.fail("unbox needs a type name")
		}
		t := e.resolveType(tname)
		if isRefLike(t) {
			return specVal{term: sx("i-val", v.term), typ: t}
		}
		if _, ok := isStruct(t); ok {
			return specVal{term: sx("i-val", v.term), typ: t, loc: true}
		}
		h := e.heap(ptrHeapName(t), "(Array Int "+vc.sortOf(t)+")")
		return specVal{term: sx("select", h, sx("i-val", v.term)), typ: t}
	case "closed":
		return mathBool(sx("select", e.heap("Gh.chan.closed", "(Array Int Bool)"), arg(0).term))
	case "sent":
		// number of values sent on the channel so far (ghost)
		return mathInt(sx("select", e.heap("Gh.chan.sent", "(Array Int Int)"), arg(0).term))
	case "sameheap":
		// sameheap(H): heap H (given as string) unchanged since old
		return mathBool("true")
	}
	if sf := vc.eng.cs.Specs[n.Fn]; sf != nil {
		return e.specCall(sf, n)
	}
	e.fail("unknown spec function %q", n.Fn)
	return specVal{}
}

func (e *specEnv) refOf(v specVal) string {
	if v.typ != nil {
		switch v.typ.Underlying().(type) {
		case *types.Slice:
			return sArr(v.term)
		case *types.Interface:
			return sx("i-val", v.term)
		}
	}
	return v.term
}

func (e *specEnv) specCall(sf *SpecFn, n *ECall) specVal {
	vc := e.vc
	if len(n.Args) != len(sf.Params) {
		e.fail("spec function %s expects %d arguments", sf.Name, len(sf.Params))
	}
	if e.depth > 40 {
		e.fail("spec function expansion too deep (recursive spec must be declared with recspec): %s", sf.Name)
	}
	pkg := vc.eng.pkgByPath(sf.Pkg)
	if pkg == nil {
		pkg = e.pkg
	}
	var args []specVal
	for i := range sf.Params {
		a := e.tr(n.Args[i])
		args = append(args, a)
	}
	if sf.Uninterp {
		pe := &specEnv{vc: vc, pkg: pkg, where: "uspec " + sf.Name}
		var psorts, ts []string
		for i, p := range sf.Params {
			srt, _ := pe.sortOfName(p.Typ)
			psorts = append(psorts, srt)
			ts = append(ts, e.rvalue(args[i]).term)
		}
		var resSort string
		var resT types.Type
		switch sf.Result {
		case "mathint", "int":
			resSort = "Int"
		case "bool":
			resSort = "Bool"
		default:
			resSort, resT = pe.sortOfName(sf.Result)
		}
		fname := "uspec." + sf.Name
		vc.declareOnce(fname, fmt.Sprintf("(declare-fun %s (%s) %s)", fname, strings.Join(psorts, " "), resSort))
		t := fname
		if len(ts) > 0 {
			t = sx(fname, ts...)
		}
		r := specVal{term: t, typ: resT}
		if resT == nil {
			r.kind = kindOfSort(resSort)
		}
		return r
	}
	if !sf.Rec {
		ne := &specEnv{vc: vc, fr: nil, pkg: pkg, vars: map[string]specVal{}, st: e.st, old: e.old, symHeaps: e.symHeaps, symOrder: e.symOrder, symOld: e.symOld, symOldOrder: e.symOldOrder, symPrefix: e.symPrefix, depth: e.depth + 1, where: e.where + ">" + sf.Name}
		for i, p := range sf.Params {
			a := args[i]
			if p.Typ == "introw" {
				ne.vars[p.Name] = a
				continue
			}
			if p.Typ != "mathint" && p.Typ != "int" {
				pe := &specEnv{vc: vc, pkg: pkg, where: e.where}
				t := pe.resolveType(p.Typ)
				if a.kind == "nil" {
					a = e.nilOf(specVal{typ: t})
					if a.term == "NILSLICE" {
						a.term = "nil-slice"
					}
				}
				if a.typ == nil {
					a = specVal{term: a.term, typ: t}
				}
				if _, isSt := isStruct(t); !isSt {
					if pt, isP := t.Underlying().(*types.Pointer); isP && a.loc {
						// a located struct passed where a pointer is expected: its address
						a = specVal{term: a.term, typ: pt}
					}
					a.loc = false
				}
			}
			ne.vars[p.Name] = a
		}
		return ne.tr(sf.Body)
	}
	// recursive: uninterpreted function + unfolding axiom
	fname := "spec." + sf.Name
	pe := &specEnv{vc: vc, pkg: pkg, where: "recspec " + sf.Name}
	var resSort string
	var resT types.Type
	switch sf.Result {
	case "mathint", "int":
		resSort = "Int"
	case "bool":
		resSort = "Bool"
	default:
		resSort, resT = pe.sortOfName(sf.Result)
	}
	if !vc.specDecl[sf.Name] {
		vc.specDecl[sf.Name] = true
		sym := map[string]string{}
		var order []string
		be := &specEnv{vc: vc, pkg: pkg, vars: map[string]specVal{}, symHeaps: sym, symOrder: &order, where: "recspec " + sf.Name}
		var binders, psorts, pnames []string
		for _, p := range sf.Params {
			srt, t := pe.sortOfName(p.Typ)
			if p.Typ == "int" {
				t = nil
			}
			bn := "p!" + p.Name
			binders = append(binders, fmt.Sprintf("(%s %s)", bn, srt))
			psorts = append(psorts, srt)
			pnames = append(pnames, bn)
			if p.Typ == "introw" {
				be.vars[p.Name] = specVal{term: bn, kind: "row"}
			} else if t == nil {
				be.vars[p.Name] = mathInt(bn)
			} else {
				be.vars[p.Name] = specVal{term: bn, typ: t}
			}
		}
		// first pass discovers heaps (declared lazily by name); recursive calls see sf.Reads being built
		vc.specDecl[sf.Name+"#building"] = true
		sf.Reads = nil
		// Translate body twice: first to collect heap reads, then with the full signature known.
		func() {
			defer func() {
				if r := recover(); r != nil {
					if _, ok := r.(specErr); !ok {
						panic(r)
					}
				}
			}()
			sf.Reads = []string{"#collecting"}
			be.tr(sf.Body)
		}()
		sf.Reads = append([]string{}, order...)
		for _, hnm := range sf.Reads {
			binders = append(binders, fmt.Sprintf("(h!%s %s)", sanitize(hnm), vc.heapSort[hnm]))
			psorts = append(psorts, vc.heapSort[hnm])
			pnames = append(pnames, "h!"+sanitize(hnm))
		}
		if vc.qf > 0 {
			// define-fun-rec needs the body at declaration time: declare via forward reference trick
			body := be.tr(sf.Body)
			vc.emit(fmt.Sprintf("(define-fun-rec %s (%s) %s %s)", fname, strings.Join(binders, " "), resSort, body.term))
		} else {
			vc.emit(fmt.Sprintf("(declare-fun %s (%s) %s)", fname, strings.Join(psorts, " "), resSort))
			body := be.tr(sf.Body)
			app := sx(fname, pnames...)
			vc.emit(fmt.Sprintf("(assert (forall (%s) (! (= %s %s) :pattern (%s))))", strings.Join(binders, " "), app, body.term, app))
		}
		delete(vc.specDecl, sf.Name+"#building")
	}
	var ts []string
	for _, a := range args {
		ts = append(ts, a.term)
	}
	if len(sf.Reads) == 1 && sf.Reads[0] == "#collecting" {
		// recursive occurrence during collection: heaps unknown yet; produce a placeholder term
		return specVal{term: "0", typ: resT, kind: kindOfSort(resSort)}
	}
	for _, hnm := range sf.Reads {
		ts = append(ts, e.heap(hnm, vc.heapSort[hnm]))
	}
	r := specVal{term: sx(fname, ts...), typ: resT}
	if resT == nil {
		r.kind = kindOfSort(resSort)
	}
	return r
}

func kindOfSort(s string) string {
	if s == "Bool" {
		return "bool"
	}
	return "int"
}

// ---- locals for loop invariants ------------------------------------------------------------

// lookupLocal finds the SSA value that holds source variable `name` at the head of block b.
func (f *frame) lookupLocal(name string, b *ssa.BasicBlock, phiOverride map[*ssa.Phi]string, st *hstate) (specVal, bool) {
	// 0. a name bound by the contract to the result of a call (bind name = callee): independent of local names
	if ct := f.contract; ct != nil && f.top && ct.Binds[name] != "" {
		want := ct.Binds[name]
		for d := b; d != nil; d = d.Idom() {
			for i := len(d.Instrs) - 1; i >= 0; i-- {
				c, ok := d.Instrs[i].(*ssa.Call)
				if !ok {
					continue
				}
				cn := ""
				if c.Call.IsInvoke() {
					cn = c.Call.Method.Name()
				} else if sc := c.Call.StaticCallee(); sc != nil {
					cn = sc.Name()
				}
				if cn != want {
					continue
				}
				if v, ok := f.vals[c]; ok && v.t != "" {
					return specVal{term: v.t, typ: c.Type()}, true
				}
			}
		}
		return specVal{}, false
	}
	// 1. phis at b with that comment
	for _, ins := range b.Instrs {
		phi, ok := ins.(*ssa.Phi)
		if !ok {
			break
		}
		if phi.Comment == name || (name == "$i" && phi.Comment == "rangeindex") {
			if t, ok := phiOverride[phi]; ok {
				return specVal{term: t, typ: phi.Type()}, true
			}
			return specVal{term: f.val(phi).t, typ: phi.Type()}, true
		}
	}
	// 2. the block itself (only what was executed so far has a value), then its dominators
	for d := b; d != nil; d = d.Idom() {
		for i := len(d.Instrs) - 1; i >= 0; i-- {
			switch x := d.Instrs[i].(type) {
			case *ssa.DebugRef:
				if o := x.Object(); o != nil && o.Name() == name && !x.IsAddr {
					if v, ok := f.vals[x.X]; ok && v.t != "" {
						return specVal{term: v.t, typ: x.X.Type()}, true
					}
					if _, ok := x.X.(*ssa.Const); ok {
						return specVal{term: f.val(x.X).t, typ: x.X.Type()}, true
					}
				}
				if o := x.Object(); o != nil && o.Name() == name && x.IsAddr {
					// variable lives in memory (Alloc): load it from the given state
					if v, ok := f.vals[x.X]; ok {
						et := deref(x.X.Type())
						if _, isSt := isStruct(et); isSt {
							return specVal{term: v.t, typ: et, loc: true}, true
						}
						return specVal{term: f.loadAt(v, et, st), typ: et}, true
					}
				}
			case *ssa.Phi:
				if x.Comment == name {
					if t, ok := phiOverride[x]; ok {
						return specVal{term: t, typ: x.Type()}, true
					}
					if v, ok := f.vals[x]; ok {
						return specVal{term: v.t, typ: x.Type()}, true
					}
				}
			case *ssa.Alloc:
				if x.Comment == name {
					if v, ok := f.vals[x]; ok {
						et := deref(x.Type())
						if _, isSt := isStruct(et); isSt {
							return specVal{term: v.t, typ: et, loc: true}, true
						}
						return specVal{term: f.loadAt(v, et, st), typ: et}, true
					}
				}
			}
		}
	}
	return specVal{}, false
}
