package main

// "Non-fresh" write effects: the heaps a piece of code may write at objects that existed before it started.
// A heap that is in the full effect set but not in this one is written only at objects allocated by the code
// itself, so every object allocated before is unchanged in it (used as a frame fact at loops and at calls
// without a modifies clause).

import (
	"go/types"

	"golang.org/x/tools/go/ssa"
)

// freshBase reports whether the address/slice/map value v is rooted in an allocation accepted by ok.
func freshBase(v ssa.Value, ok func(ssa.Instruction) bool) bool {
	switch x := v.(type) {
	case *ssa.Alloc:
		return ok(x)
	case *ssa.MakeSlice:
		return ok(x)
	case *ssa.MakeMap:
		return ok(x)
	case *ssa.FieldAddr:
		return freshBase(x.X, ok)
	case *ssa.IndexAddr:
		return freshBase(x.X, ok)
	case *ssa.Slice:
		return freshBase(x.X, ok)
	}
	return false
}

// instrNonFresh adds the heaps written by ins at possibly pre-existing objects.
func (eng *Engine) instrNonFresh(ins ssa.Instruction, out map[string]bool, ok func(ssa.Instruction) bool) {
	switch x := ins.(type) {
	case *ssa.Store:
		if !freshBase(x.Addr, ok) {
			eng.storeEffects(x.Addr, out)
		}
	case *ssa.MapUpdate:
		if !freshBase(x.Map, ok) {
			eng.mapHeapsEff(x.Map.Type().Underlying().(*types.Map), out, true)
		}
	case *ssa.Call:
		eng.callNonFresh(&x.Call, out, ok)
	case *ssa.Defer:
		eng.callNonFresh(&x.Call, out, ok)
	case *ssa.Send:
		out["Gh.chan.sent"] = true
	case *ssa.Select:
		for _, st := range x.States {
			if st.Dir == types.SendOnly {
				out["Gh.chan.sent"] = true
			}
		}
	case *ssa.Next:
		if rng, isR := x.Iter.(*ssa.Range); isR {
			if mt, isM := rng.X.Type().Underlying().(*types.Map); isM && !ok(rng) {
				out["Gh.iter.seen."+sanitize(sortNameOfKey(mt.Key()))] = true
			}
		}
	}
}

func (eng *Engine) callNonFresh(c *ssa.CallCommon, out map[string]bool, ok func(ssa.Instruction) bool) {
	if c.IsInvoke() {
		key := ifaceKey(c.Value.Type(), c.Method)
		if ct := eng.cs.Contracts["iface::"+key]; ct != nil {
			for h := range eng.contractNonFresh(ct, nil, c.Method.Type().(*types.Signature)) {
				out[h] = true
			}
			return
		}
		out["*"] = true
		return
	}
	switch callee := c.Value.(type) {
	case *ssa.Builtin:
		switch callee.Name() {
		case "append":
			if !freshBase(c.Args[0], ok) {
				eng.elemHeaps(c.Args[0].Type().Underlying().(*types.Slice).Elem(), out)
			}
		case "copy":
			if !freshBase(c.Args[0], ok) {
				eng.elemHeaps(elemTypeOf(c.Args[0].Type()), out)
			}
		case "delete":
			if !freshBase(c.Args[0], ok) {
				eng.mapHeapsEff(c.Args[0].Type().Underlying().(*types.Map), out, false)
			}
		case "close":
			out["Gh.chan.closed"] = true
		}
	case *ssa.Function:
		for h := range eng.nonFresh(callee) {
			out[h] = true
		}
	case *ssa.MakeClosure:
		for h := range eng.nonFresh(callee.Fn.(*ssa.Function)) {
			out[h] = true
		}
	case *ssa.Parameter:
		if callee.Parent() != nil && callee.Parent().Pkg != nil {
			key := callee.Parent().Pkg.Pkg.Path() + "::callback:" + funcKey(callee.Parent()) + "." + callee.Name()
			if ct := eng.cs.Contracts[key]; ct != nil {
				for h := range eng.callbackEffects(ct, callee) {
					out[h] = true
				}
				return
			}
		}
		out["*"] = true
	default:
		if fn := closureOf(c.Value); fn != nil {
			for h := range eng.nonFresh(fn) {
				out[h] = true
			}
			return
		}
		out["*"] = true
	}
}

// nonFresh: heaps fn may write at objects that existed when it was called.
func (eng *Engine) nonFresh(fn *ssa.Function) map[string]bool {
	if e, ok := eng.nfCache[fn]; ok {
		return e
	}
	if ct := eng.contractFor(fn); ct != nil && (ct.HasMod || len(fn.Blocks) == 0 || (!eng.inModule(fn) && fn.Synthetic == "")) {
		e := eng.contractNonFresh(ct, fn, fn.Signature)
		eng.nfCache[fn] = e
		return e
	}
	if len(fn.Blocks) == 0 || (!eng.inModule(fn) && fn.Synthetic == "") {
		e := eng.defaultExternEffects(fn.Signature, fn)
		eng.nfCache[fn] = e
		return e
	}
	if eng.nfBusy[fn] {
		eng.nfRecursed = true
		return map[string]bool{}
	}
	eng.nfBusy[fn] = true
	out := map[string]bool{}
	any := func(ssa.Instruction) bool { return true }
	for _, b := range fn.Blocks {
		for _, ins := range b.Instrs {
			eng.instrNonFresh(ins, out, any)
		}
	}
	delete(eng.nfBusy, fn)
	if len(eng.nfBusy) == 0 {
		eng.nfRecursed = false
		eng.nfCache[fn] = out
	} else if !eng.nfRecursed {
		eng.nfCache[fn] = out
	}
	return out
}

// contractNonFresh: the heaps a contract allows to change at pre-existing objects.
func (eng *Engine) contractNonFresh(ct *Contract, fn *ssa.Function, sig *types.Signature) map[string]bool {
	if !ct.HasMod {
		if fn != nil && len(fn.Blocks) > 0 && (eng.inModule(fn) || fn.Synthetic != "") {
			if eng.nfBusy[fn] {
				eng.nfRecursed = true
				return map[string]bool{}
			}
			eng.nfBusy[fn] = true
			out := map[string]bool{}
			any := func(ssa.Instruction) bool { return true }
			for _, b := range fn.Blocks {
				for _, ins := range b.Instrs {
					eng.instrNonFresh(ins, out, any)
				}
			}
			delete(eng.nfBusy, fn)
			return out
		}
		return eng.defaultExternEffects(sig, fn)
	}
	out := map[string]bool{}
	if ct.Pure {
		return out
	}
	pkg := eng.pkgByPath(ct.Pkg)
	names, ts := paramNamesTypes(ct, fn, sig)
	if ct.Kind == "iface" {
		names = []string{"recv"}
		ts = []types.Type{nil}
		if sig.Recv() != nil {
			ts[0] = sig.Recv().Type()
		}
		for i := 0; i < sig.Params().Len(); i++ {
			names = append(names, sig.Params().At(i).Name())
			ts = append(ts, sig.Params().At(i).Type())
		}
		if len(ct.ParamNames) > 0 {
			for i, n := range ct.ParamNames {
				if i < len(names) {
					names[i] = n
				}
			}
		}
	}
	for _, it := range ct.Modifies {
		switch {
		case it.All:
			out["*"] = true
		case it.Heap != "":
			if it.Fresh {
				continue
			}
			if len(it.Heap) > 0 && it.Heap[len(it.Heap)-1] == '*' {
				out[it.Heap] = true
				eng.expandHeapPattern(it.Heap, out)
			} else {
				out[it.Heap] = true
			}
		default:
			eng.modItemHeaps(it, names, ts, pkg, out)
		}
	}
	return out
}
