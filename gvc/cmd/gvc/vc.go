package main

import (
	"fmt"
	"go/token"
	"go/types"
	"sort"
	"strings"

	"golang.org/x/tools/go/ssa"
)

// Obligation is one named proof obligation.
type Obligation struct {
	PropsOnly bool // the clause names its properties: the obligation belongs to those only, not to all of the function's
	Name   string
	Kind   string
	Key    string
	Props  []string
	Guard  string
	Cond   string
	Pos    string
	Src    string
	Status string // unsat (discharged), sat, unknown, timeout, error
	Solver string
	Time   float64
	Model  string
	Paths  []string // optional: path conditions covering every way to reach the site (tried when the merged query fails)
	Cover  bool     // cover obligation: expected SAT (reachability)
	Func   string
	Hints  []string
	Assumed bool // named by an 'undecided' clause: an assumption, not an obligation of the run
}

func (o *Obligation) ok() bool {
	if o.Cover {
		return o.Status == "sat" || o.Status == "not-refuted"
	}
	return o.Status == "unsat"
}

type unsupportedErr struct{ msg string }

func (u unsupportedErr) Error() string { return u.msg }

// VC holds the verification condition of one function under contract.
type VC struct {
	prefixFull, prefixLight string // cached renderings of the hypotheses (shared by all obligations of the VC)
	prefixN, prefixLightN, prefixFullN int
	lineInfo                []focusLine
	retryOnly bool // discharge only the obligations not yet decided (second pass without competing functions)
	hasStack bool // some local was marked stackobj: havoc versions keep the contents of those objects
	pinned []string // root terms of parameters and call results: allocation facts are carried across havocs as ground facts
	keepHyps map[string]bool // assumed intermediate assertions (atcall) that focused renderings keep
	implVars map[string]specVal // names of the implemented interface contract, bound to this method's parameters
	eng           *Engine
	top           *ssa.Function
	topC          *Contract
	out           []string
	declared      map[string]bool
	heapSort      map[string]string
	obls          []*Obligation
	ctr           int
	strLits       map[string]string
	typeTags      map[string]int
	tagTypes      []types.Type
	funcIDs       map[string]int
	closures      map[string]*closureInfo
	assumed       map[string]bool // trusted things relied upon
	keyCount      map[string]int
	specDecl      map[string]bool
	structDecl    map[string]bool
	ifaceImpl     map[string]bool
	inlineDep     int
	paramVals     map[string]specVal // for model extraction
	entry         *hstate
	lemmaDone     map[string]bool
	lemmaName     string
	kindCtr       int
	didHavocAll   bool
	ifaceConcrete map[string]ifaceInfo
	qf            int // >0: quantifier-free candidate search with this length bound
	notes         []string
}

type ifaceInfo struct {
	typ types.Type
	val Val
}

type closureInfo struct {
	fn       *ssa.Function
	bindings []Val
}

func newVC(eng *Engine, fn *ssa.Function, c *Contract) *VC {
	vc := &VC{eng: eng, top: fn, topC: c, declared: map[string]bool{}, heapSort: map[string]string{}, strLits: map[string]string{},
		typeTags: map[string]int{}, funcIDs: map[string]int{}, closures: map[string]*closureInfo{}, assumed: map[string]bool{}, keyCount: map[string]int{},
		lemmaDone: map[string]bool{}, ifaceConcrete: map[string]ifaceInfo{}, specDecl: map[string]bool{}, structDecl: map[string]bool{}, ifaceImpl: map[string]bool{}, paramVals: map[string]specVal{}}
	return vc
}

func (vc *VC) emit(s string) {
	if vc.qf > 0 && strings.HasPrefix(s, "(assert (forall") {
		return // quantifier-free candidate search: quantified axioms are dropped (candidates are validated by replay)
	}
	vc.out = append(vc.out, s)
}

// rowAxiom constrains a fresh row: for all i, row[i] = body(i).
func (vc *VC) rowAxiom(row string, body func(i string) string) {
	if vc.qf > 0 {
		for k := 0; k < vc.qf+4; k++ {
			ks := fmt.Sprint(k)
			vc.out = append(vc.out, fmt.Sprintf("(assert (= (select %s %s) %s))", row, ks, body(ks)))
		}
		return
	}
	vc.emit(fmt.Sprintf("(assert (forall ((i Int)) (! (= (select %s i) %s) :pattern ((select %s i)))))", row, body("i"), row))
}

// quantIdx renders a bounded-index quantified formula (used inside reachability definitions).
func (vc *VC) quantIdx(guard func(i string) string, body func(i string) string, pat func(i string) string) string {
	if vc.qf > 0 {
		var cs []string
		for k := 0; k < vc.qf+2; k++ {
			ks := fmt.Sprint(k)
			cs = append(cs, implies(guard(ks), body(ks)))
		}
		return and(cs...)
	}
	return fmt.Sprintf("(forall ((i Int)) (! (=> %s %s) :pattern (%s)))", guard("i"), body("i"), pat("i"))
}

func (vc *VC) unsupported(f string, a ...interface{}) {
	panic(unsupportedErr{fmt.Sprintf(f, a...)})
}

func (vc *VC) freshName(hint string) string {
	vc.ctr++
	return fmt.Sprintf("%s!%d", sanitize(hint), vc.ctr)
}

func (vc *VC) fresh(hint, sort string) string {
	n := vc.freshName(hint)
	vc.emit(fmt.Sprintf("(declare-const %s %s)", n, sort))
	return n
}

func (vc *VC) define(hint, sort, expr string) string {
	// keep atoms undefined to reduce noise
	if !strings.HasPrefix(expr, "(") && expr != "" {
		return expr
	}
	n := vc.freshName(hint)
	// Named constants with defining equations (not define-fun macros: solvers expand macros textually, which made
	// large functions orders of magnitude slower). Reachability predicates only need the direction R => definition:
	// they occur positively in every query, and branch conditions are mutually exclusive.
	if sort == "Bool" && (hint == "R" || strings.HasPrefix(hint, "R.")) {
		vc.emit(fmt.Sprintf("(declare-const %s Bool)\n(assert (=> %s %s))", n, n, expr))
		return n
	}
	vc.emit(fmt.Sprintf("(declare-const %s %s)\n(assert (= %s %s))", n, sort, n, expr))
	return n
}

func (vc *VC) declareOnce(name, decl string) {
	if !vc.declared[name] {
		vc.declared[name] = true
		vc.emit(decl)
	}
}

// ---- sorts -------------------------------------------------------------------

func (vc *VC) sortOf(t types.Type) string {
	switch u := t.Underlying().(type) {
	case *types.Basic:
		switch {
		case u.Info()&types.IsInteger != 0:
			return "Int"
		case u.Info()&types.IsBoolean != 0:
			return "Bool"
		case u.Info()&types.IsString != 0:
			return "Int"
		case u.Info()&types.IsFloat != 0:
			return "Real"
		case u.Kind() == types.UnsafePointer, u.Kind() == types.UntypedNil:
			return "Int"
		case u.Info()&types.IsComplex != 0:
			return "Int"
		}
	case *types.Pointer, *types.Map, *types.Chan, *types.Signature:
		return "Int"
	case *types.Slice:
		return "Slice"
	case *types.Interface:
		return "Iface"
	case *types.Struct:
		return vc.structSort(t)
	case *types.Array:
		return "(Array Int " + vc.sortOf(u.Elem()) + ")"
	case *types.Tuple:
		return "Int"
	}
	vc.unsupported("no sort for type %s", t)
	return ""
}

func (vc *VC) structSort(t types.Type) string {
	st := t.Underlying().(*types.Struct)
	key := "S." + structKey(t)
	if vc.structDecl[key] {
		return key
	}
	vc.structDecl[key] = true
	var fs []string
	for i := 0; i < st.NumFields(); i++ {
		f := st.Field(i)
		fs = append(fs, fmt.Sprintf("(%s..%s %s)", key, sanitize(f.Name()), vc.sortOf(f.Type())))
	}
	if len(fs) == 0 {
		vc.emit(fmt.Sprintf("(declare-datatypes ((%s 0)) (((mk.%s))))", key, key))
	} else {
		vc.emit(fmt.Sprintf("(declare-datatypes ((%s 0)) (((mk.%s %s))))", key, key, strings.Join(fs, " ")))
	}
	return key
}

func (vc *VC) structSel(t types.Type, i int) string {
	st := t.Underlying().(*types.Struct)
	return fmt.Sprintf("%s..%s", vc.structSort(t), sanitize(st.Field(i).Name()))
}

func (vc *VC) zeroOf(t types.Type) string {
	switch u := t.Underlying().(type) {
	case *types.Basic:
		switch {
		case u.Info()&types.IsBoolean != 0:
			return "false"
		case u.Info()&types.IsFloat != 0:
			return "0.0"
		case u.Info()&types.IsString != 0:
			return vc.strLit("")
		}
		return "0"
	case *types.Slice:
		return "nil-slice"
	case *types.Interface:
		return "nil-iface"
	case *types.Struct:
		srt := vc.structSort(t)
		if u.NumFields() == 0 {
			return "mk." + srt
		}
		var fs []string
		for i := 0; i < u.NumFields(); i++ {
			fs = append(fs, vc.zeroOf(u.Field(i).Type()))
		}
		return sx("mk."+srt, fs...)
	case *types.Array:
		return fmt.Sprintf("((as const %s) %s)", vc.sortOf(t), vc.zeroOf(u.Elem()))
	}
	return "0"
}

// typeFacts returns facts true of every value of Go type t (range, well-formedness).
func (vc *VC) typeFacts(term string, t types.Type, st *hstate) string {
	switch u := t.Underlying().(type) {
	case *types.Basic:
		if ii, ok := intInfoOf(t); ok {
			return and(sx("<=", bigNum(ii.min()), term), sx("<=", term, bigNum(ii.max())))
		}
		if u.Info()&types.IsString != 0 {
			// lengths of string values that exist at run time fit an int (no such bound is stated for
			// concatenation terms, whose operands may belong to different paths)
			return sx("<=", sx("slen", term), "9223372036854775807")
		}
	case *types.Slice:
		a := sx("s-arr", term)
		f := sx("wf-slice", term)
		if st != nil {
			f = and(f, or(eq(a, "0"), sx("select", vc.lookup(st, "alloc", "(Array Int Bool)"), a)))
		}
		return f
	case *types.Pointer, *types.Map, *types.Chan:
		if st != nil {
			return or(eq(term, "0"), sx("select", vc.lookup(st, "alloc", "(Array Int Bool)"), sx("root", term)))
		}
	case *types.Interface:
		f := implies(eq(sx("i-tag", term), "0"), eq(sx("i-val", term), "0"))
		f = and(f, sx(">=", sx("i-tag", term), "0"))
		if st != nil {
			f = and(f, or(eq(sx("i-val", term), "0"), sx("select", vc.lookup(st, "alloc", "(Array Int Bool)"), sx("root", sx("i-val", term)))))
		}
		return f
	case *types.Struct:
		var fs []string
		for i := 0; i < u.NumFields(); i++ {
			fs = append(fs, vc.typeFacts(sx(vc.structSel(t, i), term), u.Field(i).Type(), st))
		}
		return and(fs...)
	}
	return "true"
}

// ---- string literals -----------------------------------------------------------

func (vc *VC) strLit(s string) string {
	if n, ok := vc.strLits[s]; ok {
		return n
	}
	n := fmt.Sprintf("str!%d", len(vc.strLits))
	vc.strLits[s] = n
	vc.emit(fmt.Sprintf("(declare-const %s Int)", n))
	vc.emit(fmt.Sprintf("(assert (= (slen %s) %d))", n, len(s)))
	if len(s) <= 40 {
		for i := 0; i < len(s); i++ {
			vc.emit(fmt.Sprintf("(assert (= (sat %s %d) %d))", n, i, s[i]))
		}
		// extensionality towards this literal
		var cs []string
		cs = append(cs, fmt.Sprintf("(= (slen s) %d)", len(s)))
		for i := 0; i < len(s); i++ {
			cs = append(cs, fmt.Sprintf("(= (sat s %d) %d)", i, s[i]))
		}
		vc.emit(fmt.Sprintf("(assert (forall ((s Int)) (! (=> %s (= s %s)) :pattern ((slen s)))))", and(cs...), n))
	}
	// distinct from other literals
	var others []string
	for o, on := range vc.strLits {
		if o != s {
			others = append(others, on)
		}
	}
	sort.Strings(others) // deterministic query text
	for _, on := range others {
		vc.emit(fmt.Sprintf("(assert (not (= %s %s)))", n, on))
	}
	return n
}

// ---- type tags -------------------------------------------------------------------

func (vc *VC) typeTag(t types.Type) string {
	k := typeKey(t)
	if n, ok := vc.typeTags[k]; ok {
		return fmt.Sprintf("%d", n)
	}
	n := len(vc.typeTags) + 1
	vc.typeTags[k] = n
	vc.tagTypes = append(vc.tagTypes, t)
	return fmt.Sprintf("%d", n)
}

func (vc *VC) funcID(name string) string {
	if n, ok := vc.funcIDs[name]; ok {
		return fmt.Sprintf("%d", n)
	}
	n := len(vc.funcIDs) + 1
	vc.funcIDs[name] = n
	return fmt.Sprintf("%d", n)
}

// ---- heap naming ---------------------------------------------------------------------

func fieldHeapName(st types.Type, i int) string {
	s := st.Underlying().(*types.Struct)
	return "H." + structKey(st) + "." + sanitize(s.Field(i).Name())
}
func elemHeapName(elem types.Type) string { return "E." + typeKey(elem) }
func ptrHeapName(t types.Type) string     { return "P." + typeKey(t) }
func mapHasHeap(m *types.Map) string      { return "MH." + typeKey(m.Key()) + "." + typeKey(m.Elem()) }
func mapValHeap(m *types.Map) string      { return "MV." + typeKey(m.Key()) + "." + typeKey(m.Elem()) }
func globalHeapName(g *ssa.Global) string {
	return "G." + g.Pkg.Pkg.Name() + "." + sanitize(g.Name())
}
func subRefFn(st types.Type, i int) string {
	s := st.Underlying().(*types.Struct)
	return "sub." + structKey(st) + "." + sanitize(s.Field(i).Name())
}
func elemRefFn(elem types.Type) string { return "elem." + structKey(elem) }

// eltFn declares (once) the slice element accessor for an element sort.
func (vc *VC) eltFn(srt string) string {
	fn := "elt." + sanitize(srt)
	if !vc.declared[fn] {
		vc.declared[fn] = true
		if vc.qf > 0 {
			vc.emit(fmt.Sprintf("(define-fun %s ((h (Array Int (Array Int %s))) (s Slice) (i Int)) %s (select (select h (s-arr s)) (+ (s-off s) i)))", fn, srt, srt))
			return fn
		}
		vc.emit(fmt.Sprintf("(declare-fun %s ((Array Int (Array Int %s)) Slice Int) %s)", fn, srt, srt))
		vc.emit(fmt.Sprintf("(assert (forall ((h (Array Int (Array Int %s))) (s Slice) (i Int)) (! (= (%s h s i) (select (select h (s-arr s)) (+ (s-off s) i))) :pattern ((%s h s i)))))", srt, fn, fn))
	}
	return fn
}

// nextKind numbers the derived-reference constructors; distinct constructors yield distinct references.
func (vc *VC) nextKind() int {
	vc.kindCtr++
	return vc.kindCtr
}

func (vc *VC) declSubRef(st types.Type, i int) string {
	fn := subRefFn(st, i)
	if !vc.declared[fn] {
		vc.declared[fn] = true
		vc.emit(fmt.Sprintf("(declare-fun %s (Int) Int)", fn))
		vc.emit(fmt.Sprintf("(declare-fun %s.inv (Int) Int)", fn))
		vc.emit(fmt.Sprintf("(assert (forall ((r Int)) (! (and (= (%s.inv (%s r)) r) (< (%s r) 0) (= (root (%s r)) (root r)) (= (rkind (%s r)) %d)) :pattern ((%s r)))))", fn, fn, fn, fn, fn, vc.nextKind(), fn))
	}
	return fn
}

func (vc *VC) declElemRef(elem types.Type) string {
	fn := elemRefFn(elem)
	if !vc.declared[fn] {
		vc.declared[fn] = true
		vc.emit(fmt.Sprintf("(declare-fun %s (Int Int) Int)", fn))
		vc.emit(fmt.Sprintf("(declare-fun %s.arr (Int) Int)", fn))
		vc.emit(fmt.Sprintf("(declare-fun %s.idx (Int) Int)", fn))
		vc.emit(fmt.Sprintf("(assert (forall ((a Int) (i Int)) (! (and (= (%s.arr (%s a i)) a) (= (%s.idx (%s a i)) i) (< (%s a i) 0) (= (root (%s a i)) (root a)) (= (rkind (%s a i)) %d)) :pattern ((%s a i)))))", fn, fn, fn, fn, fn, fn, fn, vc.nextKind(), fn))
	}
	return fn
}

// ---- heap state -------------------------------------------------------------------------

const (
	hsBase = iota
	hsStore
	hsJoin
	hsHavoc
)

type hjoin struct {
	cond string
	st   *hstate
}

type hstate struct {
	id     int
	kind   int
	parent *hstate
	name   string
	term   string
	joins  []hjoin
	all    bool
	names  map[string]bool
	cache  map[string]string
	loop   bool // havoc at a loop head (as opposed to the effect of a call)
}

func (vc *VC) newState(kind int, parent *hstate) *hstate {
	vc.ctr++
	return &hstate{id: vc.ctr, kind: kind, parent: parent, cache: map[string]string{}}
}

func (vc *VC) baseState() *hstate { return vc.newState(hsBase, nil) }

func (vc *VC) lookup(st *hstate, name, sort string) string {
	if s, ok := vc.heapSort[name]; ok {
		sort = s
	} else {
		if sort == "" {
			panic("lookup of unknown heap " + name)
		}
		vc.heapSort[name] = sort
	}
	if t, ok := st.cache[name]; ok {
		return t
	}
	var t string
	switch st.kind {
	case hsBase:
		t = fmt.Sprintf("%s@%d", name, st.id)
		vc.emit(fmt.Sprintf("(declare-const %s %s)", t, sort))
		vc.heapTypeAxiom(name, t, st)
	case hsStore:
		if st.name == name {
			t = st.term
		} else {
			t = vc.lookup(st.parent, name, sort)
		}
	case hsHavoc:
		if st.all || st.names[name] {
			t = fmt.Sprintf("%s@%d", name, st.id)
			vc.emit(fmt.Sprintf("(declare-const %s %s)", t, sort))
			vc.heapTypeAxiom(name, t, st)
			if vc.hasStack && vc.qf == 0 && !st.loop && strings.HasPrefix(sort, "(Array Int ") && name != "alloc" && st.parent != nil {
				// callees cannot write the caller's non-escaping locals
				pt := vc.lookup(st.parent, name, sort)
				vc.emit(fmt.Sprintf("(assert (forall ((r Int)) (! (=> (stackobj (root r)) (= (select %s r) (select %s r))) :pattern ((select %s r)))))", t, pt, t))
			}
		} else {
			t = vc.lookup(st.parent, name, sort)
		}
	case hsJoin:
		var ts []string
		same := true
		for _, j := range st.joins {
			x := vc.lookup(j.st, name, sort)
			if len(ts) > 0 && x != ts[0] {
				same = false
			}
			ts = append(ts, x)
		}
		if same {
			t = ts[0]
		} else {
			e := ts[len(ts)-1]
			for i := len(ts) - 2; i >= 0; i-- {
				e = ite(st.joins[i].cond, ts[i], e)
			}
			t = fmt.Sprintf("%s@%d", name, st.id)
			vc.emit(fmt.Sprintf("(declare-const %s %s)\n(assert (= %s %s))", t, sort, t, e))
		}
	}
	st.cache[name] = t
	return t
}

// heapTypeAxiom states that every entry of an unconstrained heap version is a well-typed value of the
// heap's Go type (ranges of machine integers, well-formed slice headers). Needed for heap reads in
// specifications; reads in code assume the same facts at each load.
func (vc *VC) heapTypeAxiom(name, term string, st *hstate) {
	vc.mapCanonical(name, term, st)
	if name == "alloc" {
		// nil is never an allocated object
		vc.emit(fmt.Sprintf("(assert (not (select %s 0)))", term))
	}
	if vc.qf > 0 || vc.topC == nil || !vc.topC.TypedHeap {
		return
	}
	d, ok := vc.eng.heapDescs[name]
	if !ok {
		return
	}
	// only slice headers: integer ranges are cheap to state where needed, but costly as global axioms
	vt := d.t1
	if d.kind == "mapval" {
		vt = d.t2
	}
	if d.kind == "elem" || name == "alloc" {
		return
	}
	switch vt.Underlying().(type) {
	case *types.Slice:
	case *types.Pointer, *types.Map:
		// stored references are nil or allocated in this state
		al := vc.lookup(st, "alloc", allocSort)
		switch d.kind {
		case "field", "ptr":
			vc.emit(fmt.Sprintf("(assert (forall ((r Int)) (! (or (= (select %s r) 0) (select %s (root (select %s r)))) :pattern ((select %s r)))))", term, al, term, term))
		}
		return
	default:
		return
	}
	stx := st
	if name == "alloc" {
		stx = nil
	}
	switch d.kind {
	case "field", "ptr":
		f := vc.typeFacts(sx("select", term, "r"), d.t1, stx)
		if f != "true" {
			vc.emit(fmt.Sprintf("(assert (forall ((r Int)) (! %s :pattern ((select %s r)))))", f, term))
		}
	case "elem":
		f := vc.typeFacts(sx("select", sx("select", term, "a"), "i"), d.t1, nil)
		if f != "true" {
			vc.emit(fmt.Sprintf("(assert (forall ((a Int) (i Int)) (! %s :pattern ((select (select %s a) i)))))", f, term))
		}
	case "mapval":
		f := vc.typeFacts(sx("select", sx("select", term, "m"), "k"), d.t2, stx)
		if f != "true" {
			vc.emit(fmt.Sprintf("(assert (forall ((m Int) (k %s)) (! %s :pattern ((select (select %s m) k)))))", vc.sortOf(d.t1), f, term))
		}
	}
}

func (vc *VC) store(st *hstate, name, sort, term string) *hstate {
	if _, ok := vc.heapSort[name]; !ok {
		vc.heapSort[name] = sort
	}
	n := vc.newState(hsStore, st)
	n.name = name
	n.term = vc.define(name, sort, term)
	return n
}

func (vc *VC) havoc(st *hstate, names map[string]bool) *hstate {
	n := vc.newState(hsHavoc, st)
	if names["*"] {
		n.all = true
	} else {
		n.names = names
	}
	return n
}

func (vc *VC) join(js []hjoin) *hstate {
	if len(js) == 1 {
		return js[0].st
	}
	same := true
	for _, j := range js[1:] {
		if j.st != js[0].st {
			same = false
		}
	}
	if same {
		return js[0].st
	}
	n := vc.newState(hsJoin, nil)
	n.joins = js
	return n
}

// ---- values -------------------------------------------------------------------------------

const (
	aField = iota + 1
	aElem
	aGlobal
)

type Addr struct {
	kind  int
	base  string // ref (aField) / arr (aElem)
	sl    string // aElem through a slice: the slice term
	rel   string // aElem through a slice: index relative to the slice
	idx   string
	st    types.Type
	field int
	elemT types.Type
	g     *ssa.Global
}

type Val struct {
	t     string
	elems []Val
	addr  *Addr
}

// ---- frames ----------------------------------------------------------------------------------

type loopInfo struct {
	header  *ssa.BasicBlock
	blocks  map[*ssa.BasicBlock]bool
	backs   []*ssa.BasicBlock
	ordinal int
	spec    *LoopSpec
	// generation-time data
	entrySt   *hstate
	headSt    *hstate
	variant0  string
	entryVals map[*ssa.Phi]string
	specEnvF  func(st *hstate, phiVals map[*ssa.Phi]string) *specEnv
}

type deferred struct {
	guard string
	call  *ssa.CallCommon
	instr ssa.Instruction
	blk   *ssa.BasicBlock
}

type frame struct {
	joinPaths []string // return conditions of the inlined call just executed (covering case split for the next cut obligations)
	closureBinds []Val // bindings of the closure being called by contract (set by callFunc for applyContract)
	vc         *VC
	fn         *ssa.Function
	contract   *Contract
	depth      int
	path       string // inline path prefix for obligation names
	vals       map[ssa.Value]Val
	params     []Val
	freeVars   []Val
	entry      *hstate
	R0         string
	loops      map[*ssa.BasicBlock]*loopInfo
	loopOf     map[*ssa.BasicBlock][]*loopInfo
	blkR       map[*ssa.BasicBlock]string // R at end of block
	blkSt      map[*ssa.BasicBlock]*hstate
	blkRin     map[*ssa.BasicBlock]string
	edgeC      map[[2]int]string
	defers     []deferred
	rets       []retInfo
	R          string
	st         *hstate
	cur        *ssa.BasicBlock
	top        bool
	callStk    []*ssa.Function
	iters      map[*ssa.Range]string
	pathMemo   map[*ssa.BasicBlock][]string
	extraEff   map[string]bool
	atCallSeen map[string]int
}

type retInfo struct {
	R       string
	results []Val
	st      *hstate
	pos     token.Pos
	blk     *ssa.BasicBlock
}

func (f *frame) assume(c string) {
	if c == "true" || c == "" {
		return
	}
	f.R = f.vc.define("R", "Bool", and(f.R, c))
}

func (f *frame) posStr(p token.Pos) string {
	if !p.IsValid() {
		return ""
	}
	pp := f.vc.eng.fset.Position(p)
	return fmt.Sprintf("%s:%d", shortFile(pp.Filename), pp.Line)
}

func shortFile(s string) string {
	return strings.TrimPrefix(s, "/repo/")
}

func (f *frame) srcLine(p token.Pos) string {
	if !p.IsValid() {
		return ""
	}
	pp := f.vc.eng.fset.Position(p)
	return f.vc.eng.sourceLine(pp.Filename, pp.Line)
}

// oblige records an obligation at the current point and then assumes it.
func (f *frame) oblige(kind, key string, props []string, cond string, pos token.Pos) {
	f.obligeAt(f.R, kind, key, props, cond, pos)
	if kind == "atcall" && len(cond) > 40 {
		if f.vc.keepHyps == nil {
			f.vc.keepHyps = map[string]bool{}
		}
		f.vc.keepHyps[cond] = true
	}
	f.assume(cond)
}

func (f *frame) obligeAt(R, kind, key string, props []string, cond string, pos token.Pos) *Obligation {
	vc := f.vc
	if cond == "true" {
		// trivially true obligations are still counted (named), but need no solver
	}
	fnName := funcDisplay(vc.top)
	full := f.path + kind + ":" + key
	vc.keyCount[full]++
	if n := vc.keyCount[full]; n > 1 {
		full = fmt.Sprintf("%s#%d", full, n)
	}
	if props == nil {
		props = f.defaultProps()
	}
	o := &Obligation{Name: fnName + "/" + full, Kind: kind, Key: key, Props: props, Guard: R, Cond: cond, Pos: f.posStr(pos), Src: f.srcLine(pos), Func: fnName}
	if vc.topC != nil && kind != "cover" {
		for _, pat := range vc.topC.Undecided {
			if strings.Contains(full, pat) {
				// stated as not decided: the condition is named, assumed instead of sent to a back end (so not counted as an obligation), and
				// listed among the assumptions of every property of the function
				vc.assumed["obligation "+o.Name+" is not decided (assumed; clause 'undecided "+pat+"')"] = true
				o.Cond = "true"
				o.Assumed = true
				break
			}
		}
	}
	if f.cur != nil && kind != "cover" && cond != "true" && f.depth == 0 {
		if ps := f.pathConds(f.cur); len(ps) > 1 {
			o.Paths = ps
		}
	}
	vc.obls = append(vc.obls, o)
	return o
}

// pathConds enumerates, for block b, the conjunctions of edge conditions of every acyclic path from the entry of the
// innermost enclosing loop (or of the function) to b. Their disjunction is implied by reaching b. Nil when there are too many.
func (f *frame) pathConds(b *ssa.BasicBlock) []string {
	if f.pathMemo == nil {
		f.pathMemo = map[*ssa.BasicBlock][]string{}
	}
	if ps, ok := f.pathMemo[b]; ok {
		return ps
	}
	// innermost loop containing b
	var entry *ssa.BasicBlock
	best := -1
	for h, li := range f.loops {
		if li.blocks[b] && (best < 0 || len(li.blocks) < best) {
			best = len(li.blocks)
			entry = h
		}
	}
	var rec func(x *ssa.BasicBlock) []string
	memo := map[*ssa.BasicBlock][]string{}
	tooMany := false
	rec = func(x *ssa.BasicBlock) []string {
		if x == entry || x.Index == 0 {
			return []string{"true"}
		}
		if ps, ok := memo[x]; ok {
			return ps
		}
		var out []string
		for i, p := range x.Preds {
			if p.Dominates(x) && f.loops[x] != nil && f.loops[x].blocks[p] {
				continue // back edge into x
			}
			if l := f.loops[x]; l != nil && l.blocks[p] {
				continue
			}
			if _, done := f.blkR[p]; !done {
				continue
			}
			// inner loops are summarised by their header: treat the header's incoming R as a single step
			c := f.predEdge(x, i)
			for _, pc := range rec(p) {
				out = append(out, and(pc, c))
				if len(out) > 32 {
					tooMany = true
					return out
				}
			}
		}
		memo[x] = out
		return out
	}
	ps := rec(b)
	if tooMany {
		// too many whole paths: split over the path suffixes of bounded depth instead (every way of reaching b ends
		// with one of them, so they still cover); the deepest suffix set that stays small is used
		ps = nil
		for depth := 1; depth <= 12 && f.vc.topC != nil && f.vc.topC.SuffixSplit; depth++ {
			over := false
			var sfx func(x *ssa.BasicBlock, d int) []string
			sfx = func(x *ssa.BasicBlock, d int) []string {
				if d == 0 || x == entry || x.Index == 0 {
					return []string{"true"}
				}
				var out []string
				any := false
				for i, p := range x.Preds {
					if l := f.loops[x]; l != nil && l.blocks[p] {
						continue
					}
					if _, done := f.blkR[p]; !done {
						continue
					}
					any = true
					c := f.predEdge(x, i)
					for _, pc := range sfx(p, d-1) {
						out = append(out, and(pc, c))
						if len(out) > 16 {
							over = true
							return out
						}
					}
				}
				if !any {
					return []string{"true"}
				}
				return out
			}
			cand := sfx(b, depth)
			if over {
				break
			}
			if len(cand) > 1 {
				ps = cand
			}
		}
	}
	f.pathMemo[b] = ps
	return ps
}

func (f *frame) defaultProps() []string {
	if f.vc.topC != nil {
		return f.vc.topC.Props
	}
	return nil
}

func funcDisplay(fn *ssa.Function) string {
	if fn == nil {
		return "lemma"
	}
	pkg := ""
	if fn.Pkg != nil {
		pkg = fn.Pkg.Pkg.Name() + "."
	} else if fn.Parent() != nil && fn.Parent().Pkg != nil {
		pkg = fn.Parent().Pkg.Pkg.Name() + "."
	}
	return pkg + funcKey(fn)
}

// funcKey: "name", "(*T).name", "(T).name", closures "outer$1".
func funcKey(fn *ssa.Function) string {
	if fn.Signature.Recv() != nil && fn.Parent() == nil {
		rt := fn.Signature.Recv().Type()
		if p, ok := rt.(*types.Pointer); ok {
			return "(*" + typeNameOnly(p.Elem()) + ")." + fn.Name()
		}
		return "(" + typeNameOnly(rt) + ")." + fn.Name()
	}
	if fn.Parent() != nil {
		return funcKey(fn.Parent()) + strings.TrimPrefix(fn.Name(), fn.Parent().Name())
	}
	return fn.Name()
}

func typeNameOnly(t types.Type) string {
	if n, ok := t.(*types.Named); ok {
		return n.Obj().Name()
	}
	return t.String()
}

// ---- loops --------------------------------------------------------------------------------------

func findLoops(fn *ssa.Function) (map[*ssa.BasicBlock]*loopInfo, []*loopInfo) {
	loops := map[*ssa.BasicBlock]*loopInfo{}
	for _, b := range fn.Blocks {
		for _, s := range b.Succs {
			if s.Dominates(b) {
				li := loops[s]
				if li == nil {
					li = &loopInfo{header: s, blocks: map[*ssa.BasicBlock]bool{s: true}}
					loops[s] = li
				}
				li.backs = append(li.backs, b)
				// natural loop body
				stack := []*ssa.BasicBlock{b}
				for len(stack) > 0 {
					x := stack[len(stack)-1]
					stack = stack[:len(stack)-1]
					if li.blocks[x] {
						continue
					}
					li.blocks[x] = true
					stack = append(stack, x.Preds...)
				}
			}
		}
	}
	var list []*loopInfo
	for _, li := range loops {
		list = append(list, li)
	}
	sort.Slice(list, func(i, j int) bool { return list[i].header.Index < list[j].header.Index })
	for i, li := range list {
		li.ordinal = i + 1
	}
	return loops, list
}

func rpo(fn *ssa.Function) []*ssa.BasicBlock {
	seen := map[*ssa.BasicBlock]bool{}
	var order []*ssa.BasicBlock
	var dfs func(b *ssa.BasicBlock)
	dfs = func(b *ssa.BasicBlock) {
		seen[b] = true
		for i := len(b.Succs) - 1; i >= 0; i-- {
			s := b.Succs[i]
			if !seen[s] && !s.Dominates(b) {
				dfs(s)
			}
		}
		order = append(order, b)
	}
	dfs(fn.Blocks[0])
	for i, j := 0, len(order)-1; i < j; i, j = i+1, j-1 {
		order[i], order[j] = order[j], order[i]
	}
	return order
}

// mapCanonical: every unconstrained version of a map value heap is in the model's canonical form (the value row
// holds the zero value at absent keys; MakeMap, MapUpdate and delete keep it so).
func (vc *VC) mapCanonical(name, term string, st *hstate) {
	if vc.qf > 0 || !strings.HasPrefix(name, "MV.") {
		return
	}
	var ks, zero string
	if d, ok := vc.eng.heapDescs[name]; ok && d.kind == "mapval" {
		if !canonicalMapElem(d.t2) {
			return
		}
		ks, zero = vc.sortOf(d.t1), vc.zeroOf(d.t2)
	} else {
		// not registered yet: read key and element sorts off the heap's sort
		srt := vc.heapSort[name]
		switch {
		case strings.HasSuffix(srt, " Slice))"):
			zero = "nil-slice"
		case strings.HasSuffix(srt, " Iface))"):
			zero = "nil-iface"
		default:
			return
		}
		ks = strings.TrimSuffix(strings.TrimPrefix(srt, "(Array Int (Array "), " "+srt[strings.LastIndex(srt, " ")+1:])
	}
	hh := "MH." + strings.TrimPrefix(name, "MV.")
	H := vc.lookup(st, hh, "(Array Int (Array "+ks+" Bool))")
	vc.emit(fmt.Sprintf("(assert (forall ((m Int) (k %s)) (! (=> (not (select (select %s m) k)) (= (select (select %s m) k) %s)) :pattern ((select (select %s m) k)))))", ks, H, term, zero, term))
	vc.assumed["map model: the value heap holds the zero value at absent keys (kept by make, update and delete)"] = true
}

// pin registers the root of a reference-like value for ground allocation facts across havocs.
func (vc *VC) pin(term string, t types.Type) {
	if len(vc.pinned) >= 120 {
		return
	}
	switch t.Underlying().(type) {
	case *types.Pointer, *types.Map, *types.Chan:
		vc.pinned = append(vc.pinned, sx("root", term))
	case *types.Slice:
		vc.pinned = append(vc.pinned, sx("root", sArr(term)))
	case *types.Interface:
		vc.pinned = append(vc.pinned, sx("root", sx("i-val", term)))
	}
}

func (vc *VC) pinTerm(t string) {
	if len(vc.pinned) >= 120 || strings.Contains(t, "q!") {
		return
	}
	for _, p := range vc.pinned {
		if p == t {
			return
		}
	}
	vc.pinned = append(vc.pinned, t)
}

// focusLine: a line of the VC pre-analysed for the focused rendering.
type focusLine struct {
	text    string
	quant   bool            // a quantified hypothesis guarded by a reachability constant
	weak    string          // what replaces it when dropped
	heaps   map[string]bool // heap names it mentions (without alloc and R)
	onlyAll bool            // mentions allocation only
}
