package main

import (
	"os"
	"fmt"
	"go/token"
	"go/types"
	"sort"
	"strings"

	"golang.org/x/tools/go/ssa"
)

const maxInlineDepth = 6

func (f *frame) specEnv(st *hstate) *specEnv {
	env := &specEnv{vc: f.vc, fr: f, vars: map[string]specVal{}, st: st, old: f.entry}
	if f.fn.Pkg != nil {
		env.pkg = f.fn.Pkg.Pkg
	} else if f.fn.Parent() != nil && f.fn.Parent().Pkg != nil {
		env.pkg = f.fn.Parent().Pkg.Pkg
	}
	for i, p := range f.fn.Params {
		v := f.params[i]
		env.vars[p.Name()] = specVal{term: v.t, typ: p.Type()}
	}
	for i, fv := range f.fn.FreeVars {
		if i < len(f.freeVars) {
			v := f.freeVars[i]
			// free variables are pointers to the captured variable
			et := deref(fv.Type())
			if et != nil && v.t != "" {
				if _, ok := isStruct(et); ok {
					env.vars[fv.Name()] = specVal{term: v.t, typ: et, loc: true}
				} else if st != nil {
					env.vars[fv.Name()] = specVal{term: f.loadAt(v, et, st), typ: et}
				}
			}
		}
	}
	if env.pkg == nil && f.contract != nil {
		env.pkg = f.vc.eng.pkgByPath(f.contract.Pkg)
	}
	if f.top {
		for n, v := range f.vc.implVars {
			if _, dup := env.vars[n]; !dup {
				env.vars[n] = v
			}
		}
	}
	env.where = funcDisplay(f.fn)
	return env
}

func bindResults(env *specEnv, sig *types.Signature, results []Val) {
	rs := sig.Results()
	for i := 0; i < rs.Len(); i++ {
		if i >= len(results) {
			break
		}
		v := specVal{term: results[i].t, typ: rs.At(i).Type()}
		if n := rs.At(i).Name(); n != "" && n != "_" {
			if _, clash := env.vars[n]; !clash {
				env.vars[n] = v
			}
		}
		env.vars[fmt.Sprintf("result%d", i)] = v
		if i == 0 {
			env.vars["result"] = v
		}
	}
}

// ---- entry point for call instructions -------------------------------------------------

func (f *frame) call(res ssa.Value, c *ssa.CallCommon, ins ssa.Instruction) {
	f.joinPaths = nil
	f.call1(res, c, ins)
	n0 := len(f.vc.obls)
	f.stepFrames(ins.Pos())
	if len(f.joinPaths) > 0 {
		// obligations stated right after an inlined call that returned along several paths: split over those paths
		for _, o := range f.vc.obls[n0:] {
			if len(o.Paths) == 0 {
				o.Paths = f.joinPaths
			}
		}
	}
	f.joinPaths = nil
}

// stepFrames: in a function whose contract says so, the frame condition relative to function entry is proved
// after every call and then assumed, so that the final frame obligation needs one step instead of the whole chain.
func (f *frame) stepFrames(pos token.Pos) {
	ct := f.contract
	if !f.top || ct == nil || !ct.StepFrames || f.R == "false" {
		return
	}
	vc := f.vc
	eng := vc.eng
	if hs := vc.freshOnlyHeaps(ct); len(hs) > 0 {
		ap := vc.lookup(f.entry, "alloc", allocSort)
		for _, h := range hs {
			srt, _ := vc.sortForHeap(h)
			hp := vc.lookup(f.entry, h, srt)
			hq := vc.lookup(f.st, h, srt)
			if hp != hq {
				f.oblige("framestep", "freshonly:"+h, nil, freshOnlyFormula(ap, hp, hq), pos)
			}
		}
	}
	if !ct.HasMod {
		return
	}
	eff := eng.contractEffects(ct, f.fn, f.fn.Signature)
	if eff["*"] {
		return
	}
	actual := eng.bodyEffects(f.fn)
	delete(actual, "*")
	known := map[string]bool{}
	for h := range vc.heapSort {
		known[h] = true
	}
	for _, fm := range f.frameConds(ct, f.specEnv(f.entry), f.entry, f.st, union(eff, known)) {
		if fm.formula == "true" {
			continue
		}
		f.oblige("framestep", fm.heap, nil, fm.formula, pos)
	}
}

func (f *frame) call1(res ssa.Value, c *ssa.CallCommon, ins ssa.Instruction) {
	vc := f.vc
	pos := ins.Pos()
	setRes := func(vs []Val) {
		if res == nil {
			return
		}
		sig := c.Signature()
		switch sig.Results().Len() {
		case 0:
		case 1:
			if len(vs) > 0 {
				f.vals[res] = vs[0]
			}
		default:
			f.vals[res] = Val{elems: vs}
		}
	}
	if c.IsInvoke() {
		setRes(f.invoke(c, pos))
		return
	}
	switch callee := c.Value.(type) {
	case *ssa.Builtin:
		v := f.builtin(callee, c, pos, res)
		if res != nil && (v.t != "" || len(v.elems) > 0) {
			f.vals[res] = v
		}
		return
	case *ssa.Function:
		var args []Val
		for _, a := range c.Args {
			args = append(args, f.val(a))
		}
		f.atCallAssertions(callee.Name(), c, args, pos)
		setRes(f.callFunc(callee, args, nil, c, pos))
		return
	case *ssa.MakeClosure:
		fn := callee.Fn.(*ssa.Function)
		var args, binds []Val
		for _, a := range c.Args {
			args = append(args, f.val(a))
		}
		for _, b := range callee.Bindings {
			binds = append(binds, f.val(b))
		}
		f.atCallAssertions(fn.Name(), c, args, pos)
		setRes(f.callFunc(fn, args, binds, c, pos))
		return
	}
	// call of a function-typed parameter that has a callback contract
	if p, ok := c.Value.(*ssa.Parameter); ok && p.Parent() != nil && p.Parent().Pkg != nil {
		key := p.Parent().Pkg.Pkg.Path() + "::callback:" + funcKey(p.Parent()) + "." + p.Name()
		if ct := vc.eng.cs.Contracts[key]; ct != nil {
			ct.used = true
			var args []Val
			for _, a := range c.Args {
				args = append(args, f.val(a))
			}
			setRes(f.applyCallback(ct, p, c, args, pos))
			return
		}
	}
	// dynamic call through a function value
	fv := f.val(c.Value)
	if ci := vc.closures[fv.t]; ci != nil {
		var args []Val
		for _, a := range c.Args {
			args = append(args, f.val(a))
		}
		setRes(f.callFunc(ci.fn, args, ci.bindings, c, pos))
		return
	}
	vc.assumed["calls through function values: havoc of all heaps, results unconstrained"] = true
	f.havocTo(f.st, map[string]bool{"*": true})
	setRes(f.freshResults(c.Signature(), "dyn"))
}

func (f *frame) freshResults(sig *types.Signature, hint string) []Val {
	vc := f.vc
	var out []Val
	for i := 0; i < sig.Results().Len(); i++ {
		t := sig.Results().At(i).Type()
		n := vc.fresh(hint+".r", vc.sortOf(t))
		f.assume(vc.typeFacts(n, t, f.st))
		vc.pin(n, t)
		out = append(out, Val{t: n})
	}
	return out
}

// ---- static calls -------------------------------------------------------------------------

func (f *frame) callFunc(fn *ssa.Function, args []Val, binds []Val, c *ssa.CallCommon, pos token.Pos) []Val {
	vc := f.vc
	eng := vc.eng
	ct := eng.contractFor(fn)
	if ct != nil {
		ct.used = true
	}
	hasBody := len(fn.Blocks) > 0 && (eng.inModule(fn) || fn.Synthetic != "")
	useContract := ct != nil && !ct.Inline && (len(ct.Ensures) > 0 || len(ct.Requires) > 0 || ct.HasMod || ct.Opaque || ct.Trusted || !hasBody)
	if useContract {
		// function-typed arguments may be called by the callee: their write effects join the call's frame
		f.extraEff = nil
		if c != nil {
			for ai, a := range c.Args {
				if _, isFn := a.Type().Underlying().(*types.Signature); !isFn {
					continue
				}
				// a callee with a modifies clause that is verified against its body cannot call the argument unless a
				// callback contract exists for that parameter; only then (or without a clause) the argument's effects count
				if ct.HasMod && fn != nil && ai < len(fn.Params) && fn.Pkg != nil {
					if eng.cs.Contracts[fn.Pkg.Pkg.Path()+"::callback:"+funcKey(fn)+"."+fn.Params[ai].Name()] == nil {
						continue
					}
				}
				if f.extraEff == nil {
					f.extraEff = map[string]bool{}
				}
				if cl := closureOf(a); cl != nil {
					for h := range eng.effects(cl) {
						f.extraEff[h] = true
					}
				} else if cst, isC := a.(*ssa.Const); isC && cst.Value == nil {
					// nil function
				} else {
					f.extraEff["*"] = true
				}
			}
		}
		f.closureBinds = binds
		return f.applyContract(ct, fn, fn.Signature, args, pos, funcDisplay(fn))
	}
	if hasBody && !(ct != nil && ct.NoInline) {
		rec := false
		for _, s := range f.callStk {
			if s == fn {
				rec = true
			}
		}
		if !rec && f.depth < maxInlineDepth {
			return f.inline(fn, args, binds, ct, pos)
		}
	}
	// no contract and not inlinable: havoc by computed effect
	eff := eng.effects(fn)
	if !hasBody {
		vc.assumed["no contract for "+fn.String()+": effect derived from parameter types, result unconstrained"] = true
	}
	pre := f.st
	f.havocTo(f.st, eff)
	if !eff["*"] {
		if nf := eng.nonFresh(fn); !nf["*"] {
			f.assumeFreshOnly(pre, f.st, eff, nf)
		}
	}
	return f.freshResults(fn.Signature, fn.Name())
}

func (f *frame) inline(fn *ssa.Function, args []Val, binds []Val, ct *Contract, pos token.Pos) []Val {
	vc := f.vc
	nf := &frame{vc: vc, fn: fn, contract: ct, depth: f.depth + 1, path: f.path + "inl(" + funcKey(fn) + ")/", vals: map[ssa.Value]Val{}, entry: f.st, R0: f.R,
		callStk: append(append([]*ssa.Function{}, f.callStk...), f.fn)}
	for i, p := range fn.Params {
		nf.vals[p] = args[i]
	}
	nf.params = args
	for i, fv := range fn.FreeVars {
		nf.vals[fv] = binds[i]
	}
	nf.freeVars = binds
	nf.run()
	if len(nf.rets) == 0 {
		f.R = "false"
		return f.freshResults(fn.Signature, fn.Name())
	}
	var conds []string
	var js []hjoin
	for _, r := range nf.rets {
		conds = append(conds, r.R)
		js = append(js, hjoin{r.R, r.st})
	}
	f.R = vc.define("R.ret."+fn.Name(), "Bool", or(conds...))
	f.st = vc.join(js)
	f.afterJoin(len(js), nf.entry)
	f.joinPaths = nil
	if f.top && len(conds) > 1 && len(conds) <= 8 {
		f.joinPaths = conds // the return conditions cover the reachability after the call: a sound case split
	}
	var out []Val
	for i := 0; i < fn.Signature.Results().Len(); i++ {
		var vs []Val
		for _, r := range nf.rets {
			vs = append(vs, r.results[i])
		}
		out = append(out, f.mergeVals(fn.Name()+".r", fn.Signature.Results().At(i).Type(), vs, conds))
	}
	return out
}

// applyContract uses a contract at a call site: assert requires, havoc frame, assume ensures.
func (f *frame) applyContract(ct *Contract, fn *ssa.Function, sig *types.Signature, args []Val, pos token.Pos, display string) []Val {
	vc := f.vc
	eng := vc.eng
	pre := f.st
	env := &specEnv{vc: vc, vars: map[string]specVal{}, st: pre, old: pre, where: "call " + display}
	env.pkg = eng.pkgByPath(ct.Pkg)
	if fn != nil && fn.Pkg != nil && env.pkg == nil {
		env.pkg = fn.Pkg.Pkg
	}
	names, ptypes := paramNamesTypes(ct, fn, sig)
	for i := range names {
		if i < len(args) && names[i] != "" && names[i] != "_" {
			env.vars[names[i]] = specVal{term: args[i].t, typ: ptypes[i], addr: args[i].addr}
		}
	}
	// closures: captured variables under their names (value in the state the clause is evaluated in)
	binds := f.closureBinds
	f.closureBinds = nil
	bindFV := func(e *specEnv, st *hstate) {
		if fn == nil {
			return
		}
		for i, fv := range fn.FreeVars {
			if i >= len(binds) || binds[i].t == "" {
				continue
			}
			et := deref(fv.Type())
			if et == nil {
				continue
			}
			if _, ok := isStruct(et); ok {
				e.vars[fv.Name()] = specVal{term: binds[i].t, typ: et, loc: true}
			} else {
				e.vars[fv.Name()] = specVal{term: f.loadAt(binds[i], et, st), typ: et}
			}
		}
	}
	bindFV(env, pre)
	for _, cl := range ct.Requires {
		c := env.trBool(cl.Expr)
		var ps []string
		if cl.ExplicitProps {
			ps = cl.Props
		}
		f.oblige("pre", display+"."+cl.Label, ps, c, pos)
		if cl.ExplicitProps {
			f.vc.obls[len(f.vc.obls)-1].PropsOnly = true
		}
	}
	// frame
	eff := eng.contractEffects(ct, fn, sig)
	if len(f.extraEff) > 0 {
		eff = union(eff, f.extraEff)
		f.extraEff = nil
	}
	if os.Getenv("GVC_DEBUGEFF") != "" && strings.Contains(display, os.Getenv("GVC_DEBUGEFF")) {
		var ks []string
		for k := range eff {
			ks = append(ks, k)
		}
		sort.Strings(ks)
		fmt.Fprintf(os.Stderr, "effects at call of %s: %v\n", display, ks)
	}
	f.havocTo(pre, eff)
	post := f.st
	f.frameFormulas(ct, env, pre, post, eff)
	f.assumeFreshOnlyClause(ct, pre, post)
	if !ct.HasMod && !eff["*"] {
		if nf := eng.contractNonFresh(ct, fn, sig); !nf["*"] {
			f.assumeFreshOnly(pre, post, eff, nf)
		}
	}
	results := f.freshResults(sig, "r."+sanitize(display))
	penv := env.clone()
	penv.st = post
	penv.old = pre
	bindFV(penv, post)
	bindResults(penv, sig, results)
	for _, cl := range ct.Ensures {
		f.assume(penv.trBool(cl.Expr))
	}
	if ct.NoReturn {
		f.R = "false"
	}
	if ct.Kind == "extern" || ct.Trusted {
		vc.assumed["stated contract of "+display+" (trusted)"] = true
	}
	return results
}

func paramNamesTypes(ct *Contract, fn *ssa.Function, sig *types.Signature) ([]string, []types.Type) {
	var names []string
	var ts []types.Type
	if fn != nil && len(fn.Params) > 0 {
		for _, p := range fn.Params {
			names = append(names, p.Name())
			ts = append(ts, p.Type())
		}
	} else {
		if sig.Recv() != nil {
			names = append(names, sig.Recv().Name())
			ts = append(ts, sig.Recv().Type())
		}
		for i := 0; i < sig.Params().Len(); i++ {
			names = append(names, sig.Params().At(i).Name())
			ts = append(ts, sig.Params().At(i).Type())
		}
	}
	if ct != nil && len(ct.ParamNames) > 0 && ct.Kind != "iface" {
		for i, n := range ct.ParamNames {
			if i < len(names) {
				names[i] = n
			}
		}
	}
	return names, ts
}

// frameFormulas assumes, for every havocked heap, that locations not covered by the object-level
// modifies items (and allocated before the call) are unchanged.
func (f *frame) frameFormulas(ct *Contract, env *specEnv, pre, post *hstate, eff map[string]bool) {
	if !ct.HasMod || eff["*"] {
		return
	}
	for _, fm := range f.frameConds(ct, env, pre, post, eff) {
		f.assume(fm.formula)
	}
}

// frameConds builds the frame condition formulas (used as assumptions at call sites and as
// obligations when verifying the callee).
type frameCond struct {
	heap    string
	formula string
}

func (f *frame) frameConds(ct *Contract, env *specEnv, pre, post *hstate, eff map[string]bool) []frameCond {
	return f.frameCondsItems(ct.Modifies, env, pre, post, eff)
}

func (f *frame) frameCondsItems(items []ModItem, env *specEnv, pre, post *hstate, eff map[string]bool) []frameCond {
	vc := f.vc
	// collect object-level exceptions per heap
	type exc struct {
		refs  []string // refs whose cell may change
		arrs  []string // arrays (rows) that may change
		roots []string // every ref rooted in one of these arrays may change (elements of a slice of structs)
		all   bool
	}
	ex := map[string]*exc{}
	get := func(h string) *exc {
		if ex[h] == nil {
			ex[h] = &exc{}
		}
		return ex[h]
	}
	for _, it := range items {
		switch {
		case it.All:
		case it.Heap != "":
			if it.Fresh {
				continue
			}
			for h := range eff {
				if heapMatches(it.Heap, h) {
					get(h).all = true
				}
			}
		default:
			f.modItemTargets(it, env, func(heap, ref string, isArr bool) {
				x := get(heap)
				switch {
				case strings.HasPrefix(ref, "ROOT:"):
					x.roots = append(x.roots, ref[5:])
				case isArr:
					x.arrs = append(x.arrs, ref)
				default:
					x.refs = append(x.refs, ref)
				}
			})
		}
	}
	var out []frameCond
	allocPre := vc.lookup(pre, "alloc", allocSort)
	var hs []string
	for h := range eff {
		hs = append(hs, h)
	}
	sort.Strings(hs)
	for _, h := range hs {
		if h == "alloc" || h == "*" || strings.HasPrefix(h, "Gh.iter.") {
			continue
		}
		x := ex[h]
		if x != nil && x.all {
			continue
		}
		srt, ok := vc.sortForHeap(h)
		if !ok {
			if strings.HasPrefix(h, "E.") && !strings.Contains(h, "sl") {
				srt = "(Array Int (Array Int Int))"
			} else {
				vc.notes = append(vc.notes, "frame condition for heap "+h+" skipped: sort unknown")
				continue
			}
		}
		hp := vc.lookup(pre, h, srt)
		hq := vc.lookup(post, h, srt)
		if hp == hq {
			continue
		}
		if !strings.HasPrefix(srt, "(Array Int") {
			// global cell: either listed (all) or unchanged
			out = append(out, frameCond{h, eq(hp, hq)})
			continue
		}
		var diff []string
		if x != nil {
			for _, r := range x.refs {
				diff = append(diff, not(eq("r", r)))
			}
			for _, a := range x.arrs {
				diff = append(diff, not(eq("r", a)))
			}
			for _, a := range x.roots {
				diff = append(diff, not(eq("(root r)", a)))
			}
		}
		g := and(append([]string{sx("select", allocPre, "(root r)")}, diff...)...)
		out = append(out, frameCond{h, fmt.Sprintf("(forall ((r Int)) (! (=> %s (= (select %s r) (select %s r))) :pattern ((select %s r))))", g, hq, hp, hq)})
	}
	return out
}

func heapMatches(pat, h string) bool {
	if strings.HasSuffix(pat, "*") {
		return strings.HasPrefix(h, pat[:len(pat)-1])
	}
	return pat == h
}

// modItemTargets enumerates (heap, ref) pairs designated by an object-level modifies item.
func (f *frame) modItemTargets(it ModItem, env *specEnv, add func(heap, ref string, isArr bool)) {
	vc := f.vc
	sel, ok := it.Expr.(*ESel)
	if !ok {
		// a bare variable of pointer type: *p cell
		v := env.tr(it.Expr)
		if v.typ != nil {
			if p, ok := v.typ.Underlying().(*types.Pointer); ok {
				if _, isSt := isStruct(p.Elem()); isSt {
					f.allFieldTargets(v.term, p.Elem(), add)
				} else {
					add(ptrHeapName(p.Elem()), v.term, false)
				}
				return
			}
		}
		env.fail("unsupported modifies item %s", it.Src)
	}
	switch sel.Name {
	case "ALLFIELDS":
		v := env.tr(sel.X)
		t := v.typ
		if p, ok := t.Underlying().(*types.Pointer); ok {
			t = p.Elem()
		} else if !v.loc {
			env.fail("modifies %s: not a located struct", it.Src)
		}
		f.allFieldTargets(v.term, t, add)
	case "ALLELEMS":
		v := env.tr(sel.X)
		switch u := v.typ.Underlying().(type) {
		case *types.Slice:
			if _, isSt := isStruct(u.Elem()); isSt {
				leaves := map[string]bool{}
				vc.eng.structLeafHeaps(u.Elem(), leaves)
				for h := range leaves {
					add(h, "ROOT:"+sArr(v.term), false)
				}
				return
			}
			add(elemHeapName(u.Elem()), sArr(v.term), true)
		case *types.Map:
			add(mapHasHeap(u), v.term, true)
			add(mapValHeap(u), v.term, true)
		default:
			env.fail("modifies %s: not a slice or map", it.Src)
		}
	default:
		if sel.Ghost {
			g := vc.eng.cs.Ghosts[sel.Name]
			if g == nil {
				env.fail("unknown ghost %s", sel.Name)
			}
			x := env.tr(sel.X)
			add("Gh."+g.Owner+"."+g.Name, env.refOf(x), false)
			return
		}
		x := env.tr(sel.X)
		t := x.typ
		if p, ok := t.Underlying().(*types.Pointer); ok {
			t = p.Elem()
		}
		path, _ := fieldPath(t, env.pkg, sel.Name)
		if path == nil {
			env.fail("modifies %s: no such field", it.Src)
		}
		ref := x.term
		cur := t
		for k, i := range path {
			st := cur.Underlying().(*types.Struct)
			ft := st.Field(i).Type()
			if k == len(path)-1 {
				if _, isSt := isStruct(ft); isSt {
					f.allFieldTargets(sx(vc.declSubRef(cur, i), ref), ft, add)
				} else {
					add(fieldHeapName(cur, i), ref, false)
				}
			} else {
				ref = sx(vc.declSubRef(cur, i), ref)
				cur = ft
			}
		}
	}
}

func (f *frame) allFieldTargets(ref string, t types.Type, add func(heap, ref string, isArr bool)) {
	vc := f.vc
	st := t.Underlying().(*types.Struct)
	for i := 0; i < st.NumFields(); i++ {
		ft := st.Field(i).Type()
		if _, ok := isStruct(ft); ok {
			f.allFieldTargets(sx(vc.declSubRef(t, i), ref), ft, add)
		} else {
			add(fieldHeapName(t, i), ref, false)
		}
	}
}

// ---- interface method calls -------------------------------------------------------------------

func (f *frame) invoke(c *ssa.CallCommon, pos token.Pos) []Val {
	vc := f.vc
	eng := vc.eng
	recv := f.val(c.Value)
	var args []Val
	args = append(args, recv)
	for _, a := range c.Args {
		args = append(args, f.val(a))
	}
	f.oblige("safety", "nil-iface:"+f.keyOf(c.Value, pos), nil, not(eq(sx("i-tag", recv.t), "0")), pos)
	f.atCallAssertionsIface(c.Method.Name(), c, args, pos)
	key := ifaceKey(c.Value.Type(), c.Method)
	if k := strings.Split(key, "."); len(k) >= 2 {
		// qualified form Interface.Method (when a plain method name also names other callees)
		f.atCallAssertionsIface(k[len(k)-2]+"."+k[len(k)-1], c, args, pos)
	}
	ct := eng.cs.Contracts["iface::"+key]
	sig := c.Method.Type().(*types.Signature)
	// devirtualise when the dynamic type is known (interface value built in this activation or an inlined caller)
	if ci, ok := vc.ifaceConcrete[recv.t]; ok {
		if fn := eng.prog.LookupMethod(ci.typ, c.Method.Pkg(), c.Method.Name()); fn != nil {
			cargs := append([]Val{ci.val}, args[1:]...)
			return f.callFunc(fn, cargs, nil, c, pos)
		}
	}
	if ct != nil {
		ct.used = true
		// build signature with receiver for naming
		return f.applyIface(ct, c, sig, args, pos, key)
	}
	vc.assumed["interface method "+key+" has no contract: havoc of all heaps, results unconstrained"] = true
	f.havocTo(f.st, map[string]bool{"*": true})
	return f.freshResults(sig, c.Method.Name())
}

func ifaceKey(t types.Type, m *types.Func) string {
	// find the (possibly embedded) interface declaring m: use the method's receiver type if named
	if sig, ok := m.Type().(*types.Signature); ok && sig.Recv() != nil {
		if n, ok := sig.Recv().Type().(*types.Named); ok && n.Obj().Pkg() != nil {
			return n.Obj().Pkg().Path() + "." + n.Obj().Name() + "." + m.Name()
		}
	}
	if n, ok := t.(*types.Named); ok && n.Obj().Pkg() != nil {
		return n.Obj().Pkg().Path() + "." + n.Obj().Name() + "." + m.Name()
	}
	return t.String() + "." + m.Name()
}

func (f *frame) applyIface(ct *Contract, c *ssa.CallCommon, sig *types.Signature, args []Val, pos token.Pos, key string) []Val {
	// parameter names: recv + declared names or signature names
	names := []string{"recv"}
	ts := []types.Type{c.Value.Type()}
	for i := 0; i < sig.Params().Len(); i++ {
		names = append(names, sig.Params().At(i).Name())
		ts = append(ts, sig.Params().At(i).Type())
	}
	if len(ct.ParamNames) > 0 {
		for i, n := range ct.ParamNames {
			if i < len(names) {
				names[i] = n
			}
		}
	}
	vc := f.vc
	pre := f.st
	env := &specEnv{vc: vc, vars: map[string]specVal{}, st: pre, old: pre, where: "invoke " + key, pkg: vc.eng.pkgByPath(ct.Pkg)}
	for i := range names {
		env.vars[names[i]] = specVal{term: args[i].t, typ: ts[i]}
	}
	short := key[strings.LastIndex(key, "/")+1:]
	for _, cl := range ct.Requires {
		f.oblige("pre", short+"."+cl.Label, cl.Props, env.trBool(cl.Expr), pos)
		if cl.ExplicitProps {
			f.vc.obls[len(f.vc.obls)-1].PropsOnly = true
		}
	}
	eff := vc.eng.contractEffects(ct, nil, sig)
	f.havocTo(pre, eff)
	post := f.st
	f.frameFormulas(ct, env, pre, post, eff)
	f.assumeFreshOnlyClause(ct, pre, post)
	results := f.freshResults(sig, "r."+sanitize(short))
	penv := env.clone()
	penv.st = post
	penv.old = pre
	bindResults(penv, sig, results)
	for _, cl := range ct.Ensures {
		f.assume(penv.trBool(cl.Expr))
	}
	vc.assumed["interface contract "+short+" (implementations checked separately where listed)"] = true
	return results
}

// ---- builtins -------------------------------------------------------------------------------------

func (f *frame) builtin(b *ssa.Builtin, c *ssa.CallCommon, pos token.Pos, res ssa.Value) Val {
	vc := f.vc
	switch b.Name() {
	case "len":
		x := c.Args[0]
		switch u := x.Type().Underlying().(type) {
		case *types.Slice:
			return Val{t: vc.define("len", "Int", sLen(f.term(x)))}
		case *types.Basic:
			return Val{t: vc.define("len", "Int", sx("slen", f.term(x)))}
		case *types.Map:
			vc.declareOnce("mapcard", "(declare-fun mapcard (Int) Int)")
			n := vc.fresh("maplen", "Int")
			f.assume(sx(">=", n, "0"))
			return Val{t: n}
		case *types.Array:
			return Val{t: num(u.Len())}
		case *types.Pointer:
			return Val{t: num(u.Elem().Underlying().(*types.Array).Len())}
		case *types.Chan:
			n := vc.fresh("chanlen", "Int")
			f.assume(sx(">=", n, "0"))
			return Val{t: n}
		}
	case "cap":
		x := c.Args[0]
		if _, ok := x.Type().Underlying().(*types.Slice); ok {
			return Val{t: vc.define("cap", "Int", sCap(f.term(x)))}
		}
	case "append":
		return f.appendOp(c, pos)
	case "copy":
		dst := f.term(c.Args[0])
		var n string
		et := elemTypeOf(c.Args[0].Type())
		if isString(c.Args[1].Type()) {
			s := f.term(c.Args[1])
			n = vc.define("copy.n", "Int", sx("imin", sLen(dst), sx("slen", s)))
			// contents from string
			hn := elemHeapName(et)
			hs := "(Array Int (Array Int Int))"
			h := vc.lookup(f.st, hn, hs)
			row := vc.fresh("row", "(Array Int Int)")
			vc.rowAxiom(row, func(i string) string {
				return fmt.Sprintf("(ite (and (<= (s-off %s) %s) (< %s (+ (s-off %s) %s))) (sat %s (- %s (s-off %s))) (select (select %s (s-arr %s)) %s))", dst, i, i, dst, n, s, i, dst, h, dst, i)
			})
			f.st = vc.store(f.st, hn, hs, sx("store", h, sArr(dst), row))
		} else {
			src := f.term(c.Args[1])
			n = vc.define("copy.n", "Int", sx("imin", sLen(dst), sLen(src)))
			f.copyRange(et, sArr(dst), sOff(dst), sArr(src), sOff(src), n, f.st)
		}
		return Val{t: n}
	case "delete":
		mt := c.Args[0].Type().Underlying().(*types.Map)
		f.mapDelete(f.term(c.Args[0]), mt, f.term(c.Args[1]))
		return Val{}
	case "ssa:wrapnilchk":
		// promoted/value-receiver wrapper called through a pointer: panics when the pointer is nil
		v := f.val(c.Args[0])
		f.oblige("safety", "nil:"+f.keyOf(c.Args[0], pos), nil, not(eq(v.t, "0")), pos)
		return v
	case "panic":
		f.oblige("safety", "panic", nil, "false", pos)
		return Val{}
	case "print", "println":
		return Val{}
	case "close":
		ch := f.term(c.Args[0])
		cl := vc.lookup(f.st, "Gh.chan.closed", "(Array Int Bool)")
		f.oblige("safety", "close-nil:"+f.keyOf(c.Args[0], pos), nil, not(eq(ch, "0")), pos)
		f.oblige("safety", "close-closed:"+f.keyOf(c.Args[0], pos), nil, not(sx("select", cl, ch)), pos)
		f.st = vc.store(f.st, "Gh.chan.closed", "(Array Int Bool)", sx("store", cl, ch, "true"))
		return Val{}
	case "min", "max":
		op := "imin"
		if b.Name() == "max" {
			op = "imax"
		}
		e := f.term(c.Args[0])
		for _, a := range c.Args[1:] {
			e = sx(op, e, f.term(a))
		}
		return Val{t: vc.define(b.Name(), "Int", e)}
	case "recover":
		return Val{t: "nil-iface"}
	}
	vc.unsupported("builtin %s on %s", b.Name(), c.Args[0].Type())
	return Val{}
}

func (f *frame) appendOp(c *ssa.CallCommon, pos token.Pos) Val {
	vc := f.vc
	s := f.term(c.Args[0])
	st := c.Args[0].Type()
	et := st.Underlying().(*types.Slice).Elem()
	var tArr, tOff, tLen string
	var fromString string
	if isString(c.Args[1].Type()) {
		fromString = f.term(c.Args[1])
		tLen = sx("slen", fromString)
	} else {
		t := f.term(c.Args[1])
		tArr, tOff, tLen = sArr(t), sOff(t), sLen(t)
	}
	newLen := vc.define("app.len", "Int", sx("+", sLen(s), tLen))
	inPlace := vc.define("app.inplace", "Bool", sx("<=", newLen, sCap(s)))
	// fresh array for the growing case
	arr2 := vc.fresh("app.arr", "Int")
	cap2 := vc.fresh("app.cap", "Int")
	al := vc.lookup(f.st, "alloc", allocSort)
	f.assume(and(sx(">", arr2, "0"), not(sx("select", al, arr2)), sx(">=", cap2, newLen), sx(">", cap2, "0")))
	// nil-preserving: appending nothing to a nil slice yields nil
	resArr := vc.define("app.resarr", "Int", ite(inPlace, sArr(s), arr2))
	resOff := vc.define("app.resoff", "Int", ite(inPlace, sOff(s), "0"))
	resCap := vc.define("app.rescap", "Int", ite(inPlace, sCap(s), cap2))
	f.st = vc.store(f.st, "alloc", allocSort, ite(inPlace, al, sx("store", al, arr2, "true")))
	srcSt := f.st
	if _, isSt := isStruct(et); isSt {
		if fromString != "" {
			vc.unsupported("append string to struct slice")
		}
		// copy old prefix when growing, then the new elements
		f.copyStructRangeCond(et, inPlace, resArr, resOff, s, tArr, tOff, tLen, srcSt)
	} else {
		hn := elemHeapName(et)
		srt := vc.sortOf(et)
		hs := "(Array Int (Array Int " + srt + "))"
		h := vc.lookup(f.st, hn, hs)
		row := vc.fresh("row", "(Array Int "+srt+")")
		lo := sx("+", resOff, sLen(s))
		vc.rowAxiom(row, func(i string) string {
			var srcElem string
			if fromString != "" {
				srcElem = sx("sat", fromString, sx("-", i, lo))
			} else {
				srcElem = sx("select", sx("select", h, tArr), sx("+", tOff, sx("-", i, lo)))
			}
			oldElem := ite(inPlace, sx("select", sx("select", h, sArr(s)), i),
				ite(and(sx("<=", "0", i), sx("<", i, sLen(s))), sx("select", sx("select", h, sArr(s)), sx("+", sOff(s), i)), vc.zeroOf(et)))
			return fmt.Sprintf("(ite (and (<= %s %s) (< %s (+ %s %s))) %s %s)", lo, i, i, lo, tLen, srcElem, oldElem)
		})
		f.st = vc.store(f.st, hn, hs, sx("store", h, resArr, row))
	}
	r := vc.define("app", "Slice", sx("mk-slice", resArr, resOff, newLen, resCap))
	return Val{t: r}
}

// copyStructRangeCond implements append for slices of structs.
func (f *frame) copyStructRangeCond(et types.Type, inPlace, resArr, resOff, s, tArr, tOff, tLen string, srcSt *hstate) {
	vc := f.vc
	efn := vc.declElemRef(et)
	var walk func(t types.Type, path func(string) string)
	walk = func(t types.Type, path func(string) string) {
		stt := t.Underlying().(*types.Struct)
		for i := 0; i < stt.NumFields(); i++ {
			ft := stt.Field(i).Type()
			if _, ok := isStruct(ft); ok {
				sub := vc.declSubRef(t, i)
				walk(ft, func(r string) string { return sx(sub, path(r)) })
				continue
			}
			hn := fieldHeapName(t, i)
			srt := vc.sortOf(ft)
			hs := "(Array Int " + srt + ")"
			old := vc.lookup(srcSt, hn, hs)
			nw := vc.fresh(hn, hs)
			// positions of result array: [resOff, resOff+len(s)) = old contents of s (when not in place),
			// [resOff+len(s), +tLen) = t's elements; everything else unchanged.
			mark := vc.freshName("mk." + hn)
			midx := vc.freshName("mi." + hn)
			vc.emit(fmt.Sprintf("(declare-fun %s (Int) Bool)", mark))
			vc.emit(fmt.Sprintf("(declare-fun %s (Int) Int)", midx))
			el := path(sx(efn, resArr, "i"))
			lo := sx("+", resOff, sLen(s))
			inNew := fmt.Sprintf("(and (<= %s i) (< i (+ %s %s)))", lo, lo, tLen)
			inOld := fmt.Sprintf("(and (not %s) (<= 0 i) (< i (s-len %s)))", inPlace, s)
			vc.emit(fmt.Sprintf("(assert (forall ((i Int)) (! (and (= (%s %s) (or %s %s)) (= (%s %s) i)) :pattern (%s))))", mark, el, inNew, inOld, midx, el, el))
			vc.emit(fmt.Sprintf("(assert (forall ((r Int)) (! (=> (%s r) (and (= (root r) %s) (= r %s))) :pattern ((%s r)))))", mark, resArr, path(sx(efn, resArr, sx(midx, "r"))), mark))
			mi := sx(midx, "r")
			srcNew := sx("select", old, path(sx(efn, tArr, sx("+", tOff, sx("-", mi, lo)))))
			srcOld := sx("select", old, path(sx(efn, sArr(s), sx("+", sOff(s), mi))))
			val := ite(fmt.Sprintf("(and (<= %s %s) (< %s (+ %s %s)))", lo, mi, mi, lo, tLen), srcNew, srcOld)
			vc.emit(fmt.Sprintf("(assert (forall ((r Int)) (! (= (select %s r) (ite (%s r) %s (select %s r))) :pattern ((select %s r)))))", nw, mark, val, old, nw))
			f.st = vc.store(f.st, hn, hs, nw)
		}
	}
	walk(et, func(r string) string { return r })
}

// applyCallback: a call of a function-typed parameter under its callback contract. The clauses may mention the
// callback's arguments (declared names), the enclosing function's parameters and its source-level locals.
func (f *frame) applyCallback(ct *Contract, p *ssa.Parameter, c *ssa.CallCommon, args []Val, pos token.Pos) []Val {
	vc := f.vc
	sig := c.Signature()
	pre := f.st
	env := f.specEnv(pre)
	env.old = pre
	env.atBlock = f.cur
	env.where = "callback " + ct.Key
	for i := 0; i < sig.Params().Len() && i < len(args); i++ {
		name := sig.Params().At(i).Name()
		if i < len(ct.ParamNames) {
			name = ct.ParamNames[i]
		}
		if name != "" && name != "_" {
			env.vars[name] = specVal{term: args[i].t, typ: sig.Params().At(i).Type()}
		}
	}
	short := ct.Key
	for _, cl := range ct.Requires {
		f.oblige("pre", "callback."+short+"."+cl.Label, cl.Props, env.trBool(cl.Expr), pos)
	}
	eff := vc.eng.callbackEffects(ct, p)
	f.havocTo(pre, eff)
	post := f.st
	if ct.HasMod && !eff["*"] {
		for _, fm := range f.frameCondsItems(ct.Modifies, env, pre, post, eff) {
			f.assume(fm.formula)
		}
	}
	results := f.freshResults(sig, "r.cb")
	penv := env.clone()
	penv.st = post
	penv.old = pre
	bindResults(penv, sig, results)
	for _, cl := range ct.Ensures {
		f.assume(penv.trBool(cl.Expr))
	}
	vc.assumed["callback contract "+short+" (assumed of every function passed for this parameter)"] = true
	return results
}

// atCallAssertions: obligations the enclosing function's contract attaches to its calls of the named callee.
// The clauses see the call's arguments as arg0, arg1, ... (receiver first), the function's parameters and locals.
// noCallCheck: a contract may say that the function does not call a given callee itself (e.g. it does not re-arm a
// timer): a call that is present is a failed obligation.
func (f *frame) noCallCheck(callee string, pos token.Pos) {
	if f.contract == nil || !f.top {
		return
	}
	for _, n := range f.contract.NoCalls {
		if n == callee {
			o := f.obligeAt(f.R, "nocall", callee, nil, "false", pos)
			o.Src = "the contract says this function does not call " + callee
		}
	}
}

func (f *frame) atCallAssertions(callee string, c *ssa.CallCommon, args []Val, pos token.Pos) {
	f.noCallCheck(callee, pos)
	if f.contract == nil || !f.top || len(f.contract.AtCalls[callee]) == 0 {
		return
	}
	env := f.specEnv(f.st)
	env.atBlock = f.cur
	env.where = "atcall " + callee
	for i, a := range args {
		if a.t != "" {
			env.vars[fmt.Sprintf("arg%d", i)] = specVal{term: a.t, typ: c.Args[i].Type()}
		}
	}
	f.atCallSeen[callee]++
	for _, cl := range f.contract.AtCalls[callee] {
		f.oblige("atcall", callee+"."+cl.Label, cl.Props, env.trBool(cl.Expr), pos)
	}
}

// atCallAssertionsIface: atcall clauses for interface method calls (arg0 is the receiver value).
func (f *frame) atCallAssertionsIface(callee string, c *ssa.CallCommon, args []Val, pos token.Pos) {
	f.noCallCheck(callee, pos)
	if f.contract == nil || !f.top || len(f.contract.AtCalls[callee]) == 0 {
		return
	}
	env := f.specEnv(f.st)
	env.atBlock = f.cur
	env.where = "atcall " + callee
	for i, a := range args {
		if a.t == "" {
			continue
		}
		if i == 0 {
			env.vars["arg0"] = specVal{term: a.t, typ: c.Value.Type()}
		} else {
			env.vars[fmt.Sprintf("arg%d", i)] = specVal{term: a.t, typ: c.Args[i-1].Type()}
		}
	}
	f.atCallSeen[callee]++
	for _, cl := range f.contract.AtCalls[callee] {
		f.oblige("atcall", callee+"."+cl.Label, cl.Props, env.trBool(cl.Expr), pos)
	}
}

// freshOnlyHeaps expands the freshonly clause of a contract to the heaps known so far.
func (vc *VC) freshOnlyHeaps(ct *Contract) []string {
	if ct == nil || len(ct.FreshOnly) == 0 {
		return nil
	}
	seen := map[string]bool{}
	var out []string
	add := func(h string) {
		if !seen[h] {
			if srt, ok := vc.sortForHeap(h); ok && strings.HasPrefix(srt, "(Array Int") {
				seen[h] = true
				out = append(out, h)
			}
		}
	}
	for _, pat := range ct.FreshOnly {
		if strings.HasSuffix(pat, "*") {
			tmp := map[string]bool{pat: true}
			vc.eng.expandHeapPattern(pat, tmp)
			for h := range tmp {
				add(h)
			}
		} else {
			add(pat)
		}
	}
	sort.Strings(out)
	return out
}

func freshOnlyFormula(allocPre, hPre, hPost string) string {
	return fmt.Sprintf("(forall ((r Int)) (! (=> (select %s (root r)) (= (select %s r) (select %s r))) :pattern ((select %s r))))", allocPre, hPost, hPre, hPost)
}

// assumeFreshOnlyClause: at a call site, the heaps of the callee's freshonly clause are unchanged at every object
// allocated before the call (whatever the modifies clause, or its absence, havocked).
func (f *frame) assumeFreshOnlyClause(ct *Contract, pre, post *hstate) {
	vc := f.vc
	hs := vc.freshOnlyHeaps(ct)
	if len(hs) == 0 {
		return
	}
	ap := vc.lookup(pre, "alloc", allocSort)
	for _, h := range hs {
		srt, _ := vc.sortForHeap(h)
		hp := vc.lookup(pre, h, srt)
		hq := vc.lookup(post, h, srt)
		if hp != hq {
			f.assume(freshOnlyFormula(ap, hp, hq))
		}
	}
}
