package main

import (
	"bufio"
	"fmt"
	"go/token"
	"go/types"
	"os"
	"path/filepath"
	"regexp"
	"sort"
	"strings"

	"golang.org/x/tools/go/packages"
	"golang.org/x/tools/go/ssa"
	"golang.org/x/tools/go/ssa/ssautil"
)

const modulePath = "github.com/quickfixgo/quickfix"

type trustedImpl struct {
	props []string
	text  string
}

type Engine struct {
	trustedImpls []trustedImpl // implementations of closed-world interface contracts that are stated, not verified
	repo        string
	verifDir    string
	fset        *token.FileSet
	prog        *ssa.Program
	pkgs        []*ssa.Package
	tpkgs       map[string]*types.Package // by path
	cs          *ContractSet
	effCache    map[*ssa.Function]map[string]bool
	effBusy     map[*ssa.Function]bool
	fieldHeaps  []string
	heapDescs   map[string]heapDesc
	nfCache     map[*ssa.Function]map[string]bool
	nfBusy      map[*ssa.Function]bool
	nfRecursed  bool
	effRecursed bool
	srcCache    map[string][]string
	funcsByKey  map[string]*ssa.Function // pkgpath::key
	loadErrs    []string
}

var loadPatterns = []string{".", "./internal", "./datadictionary", "./store/file", "./store/sql"}

func LoadEngine(repo, verifDir string) (*Engine, error) {
	eng := &Engine{repo: repo, verifDir: verifDir, effCache: map[*ssa.Function]map[string]bool{}, effBusy: map[*ssa.Function]bool{}, srcCache: map[string][]string{}, tpkgs: map[string]*types.Package{}, funcsByKey: map[string]*ssa.Function{}, heapDescs: map[string]heapDesc{}, nfCache: map[*ssa.Function]map[string]bool{}, nfBusy: map[*ssa.Function]bool{}}
	cfg := &packages.Config{Mode: packages.LoadAllSyntax, Dir: repo, BuildFlags: []string{"-tags=verif"},
		Env: append(os.Environ(), "GOFLAGS=-mod=mod", "GOPROXY=off", "GOSUMDB=off", "GOTOOLCHAIN=local")}
	pkgs, err := packages.Load(cfg, loadPatterns...)
	if err != nil {
		return nil, err
	}
	for _, p := range pkgs {
		for _, e := range p.Errors {
			eng.loadErrs = append(eng.loadErrs, e.Error())
		}
	}
	if len(eng.loadErrs) > 0 {
		return nil, fmt.Errorf("package load errors: %s", strings.Join(eng.loadErrs, "; "))
	}
	prog, spkgs := ssautil.AllPackages(pkgs, ssa.GlobalDebug)
	prog.Build()
	eng.prog = prog
	eng.fset = prog.Fset
	dirs := map[string]string{}
	for i, sp := range spkgs {
		if sp == nil {
			continue
		}
		eng.pkgs = append(eng.pkgs, sp)
		if len(pkgs[i].GoFiles) > 0 {
			dirs[sp.Pkg.Path()] = filepath.Dir(pkgs[i].GoFiles[0])
		}
	}
	for _, p := range prog.AllPackages() {
		eng.tpkgs[p.Pkg.Path()] = p.Pkg
	}
	eng.cs = NewContractSet()
	// stdlib contracts kept in /verif
	ms, _ := filepath.Glob(filepath.Join(verifDir, "contracts", "*.gvc"))
	sort.Strings(ms)
	for _, m := range ms {
		eng.cs.LoadFile(m, modulePath)
	}
	var paths []string
	for p := range dirs {
		paths = append(paths, p)
	}
	sort.Strings(paths)
	for _, p := range paths {
		fs, _ := filepath.Glob(filepath.Join(dirs[p], "zz_verif_contracts*.go"))
		sort.Strings(fs)
		for _, f := range fs {
			eng.cs.LoadFile(f, p)
		}
	}
	// heap registry: field heaps of every named struct type, element/pointer heaps of named and basic types
	for _, p := range prog.AllPackages() {
		sc := p.Pkg.Scope()
		for _, n := range sc.Names() {
			tn, ok := sc.Lookup(n).(*types.TypeName)
			if !ok || tn.IsAlias() {
				continue
			}
			t := tn.Type()
			if _, isSt := t.Underlying().(*types.Struct); isSt {
				eng.structLeafHeaps(t, map[string]bool{})
			} else if _, isIf := t.Underlying().(*types.Interface); !isIf {
				eng.noteHeap(elemHeapName(t), "elem", t, nil)
				eng.noteHeap(ptrHeapName(t), "ptr", t, nil)
			}
		}
	}
	for _, b := range types.Typ {
		if b.Kind() != types.Invalid && b.Info()&types.IsUntyped == 0 && b.Kind() != types.UnsafePointer {
			eng.noteHeap(elemHeapName(b), "elem", b, nil)
			eng.noteHeap(ptrHeapName(b), "ptr", b, nil)
		}
	}
	// index functions
	for fn := range ssautil.AllFunctions(prog) {
		if fn.Pkg == nil && fn.Parent() == nil {
			continue
		}
		p := fn.Pkg
		if p == nil {
			for q := fn.Parent(); q != nil && p == nil; q = q.Parent() {
				p = q.Pkg
			}
		}
		if p == nil || fn.Synthetic != "" {
			continue
		}
		eng.funcsByKey[p.Pkg.Path()+"::"+funcKey(fn)] = fn
	}
	return eng, nil
}

func (eng *Engine) inModule(fn *ssa.Function) bool {
	p := fn.Pkg
	for q := fn.Parent(); p == nil && q != nil; q = q.Parent() {
		p = q.Pkg
	}
	return p != nil && strings.HasPrefix(p.Pkg.Path(), modulePath)
}

func (eng *Engine) pkgByName(name string) *types.Package {
	for _, sp := range eng.pkgs {
		if sp.Pkg.Name() == name {
			return sp.Pkg
		}
	}
	for _, p := range eng.tpkgs {
		if p.Name() == name {
			return p
		}
	}
	return nil
}

func (eng *Engine) pkgByPath(path string) *types.Package {
	return eng.tpkgs[path]
}

func (eng *Engine) contractFor(fn *ssa.Function) *Contract {
	p := fn.Pkg
	for q := fn.Parent(); p == nil && q != nil; q = q.Parent() {
		p = q.Pkg
	}
	if p == nil {
		return nil
	}
	if eng.inModule(fn) {
		return eng.cs.Contracts[p.Pkg.Path()+"::"+funcKey(fn)]
	}
	return eng.cs.Contracts["extern::"+externKey(fn)]
}

// externKey: "bytes.IndexByte", "(*bytes.Buffer).Write", "(time.Time).Before"
func externKey(fn *ssa.Function) string {
	if fn.Signature.Recv() != nil {
		rt := fn.Signature.Recv().Type()
		if p, ok := rt.(*types.Pointer); ok {
			if n, ok := p.Elem().(*types.Named); ok {
				return "(*" + n.Obj().Pkg().Name() + "." + n.Obj().Name() + ")." + fn.Name()
			}
		}
		if n, ok := rt.(*types.Named); ok && n.Obj().Pkg() != nil {
			return "(" + n.Obj().Pkg().Name() + "." + n.Obj().Name() + ")." + fn.Name()
		}
	}
	if fn.Pkg != nil {
		return fn.Pkg.Pkg.Name() + "." + fn.Name()
	}
	return fn.Name()
}

func (eng *Engine) sourceLine(file string, line int) string {
	ls, ok := eng.srcCache[file]
	if !ok {
		f, err := os.Open(file)
		if err == nil {
			sc := bufio.NewScanner(f)
			sc.Buffer(make([]byte, 1<<20), 1<<20)
			for sc.Scan() {
				ls = append(ls, sc.Text())
			}
			f.Close()
		}
		eng.srcCache[file] = ls
	}
	if line >= 1 && line <= len(ls) {
		return strings.TrimSpace(ls[line-1])
	}
	return ""
}

// ---- building the VC of one function under contract -------------------------------------------

type FuncResult struct {
	Fn        string
	Key       string
	File      string
	Props     []string
	Obls      []*Obligation
	Err       string // unsupported / spec error
	Assumed   []string
	Notes     []string
	SMTFile   string
	GenTime   float64
	SolveTime float64
	NClauses  int
}

func (eng *Engine) buildVC(fn *ssa.Function, ct *Contract) (vc *VC, err error) {
	return eng.buildVCq(fn, ct, 0)
}

// buildVCq with qf > 0 builds the quantifier-free candidate-search rendering (never used to discharge).
func (eng *Engine) buildVCq(fn *ssa.Function, ct *Contract, qf int) (vc *VC, err error) {
	vc = newVC(eng, fn, ct)
	vc.qf = qf
	defer func() {
		if r := recover(); r != nil {
			switch e := r.(type) {
			case unsupportedErr:
				err = fmt.Errorf("unsupported: %s", e.msg)
			case specErr:
				err = fmt.Errorf("spec error: %s", e.msg)
			default:
				panic(r)
			}
		}
	}()
	vc.emit(preludeBase)
	if qf == 0 {
		vc.emit(preludeQuant)
	}
	vc.emit("(assert (forall ((v Int)) (! (=> (> v 0) (= (root v) v)) :pattern ((root v)))))")
	vc.emit("(assert (= (root 0) 0))")
	f := &frame{vc: vc, fn: fn, contract: ct, vals: map[ssa.Value]Val{}, top: true, atCallSeen: map[string]int{}}
	f.entry = vc.baseState()
	vc.entry = f.entry
	f.st = f.entry
	f.R = "true"
	// parameters
	for i, p := range fn.Params {
		n := vc.fresh("p."+p.Name(), vc.sortOf(p.Type()))
		v := Val{t: n}
		f.vals[p] = v
		f.params = append(f.params, v)
		f.assume(vc.typeFacts(n, p.Type(), f.entry))
		if qf > 0 {
			switch p.Type().Underlying().(type) {
			case *types.Slice:
				f.assume(and(sx("<=", sLen(n), num(int64(qf))), eq(sOff(n), "0"), sx("<=", sCap(n), num(int64(qf+2)))))
			case *types.Basic:
				if isString(p.Type()) {
					f.assume(and(sx("<=", "0", sx("slen", n)), sx("<=", sx("slen", n), num(int64(qf)))))
				}
			}
		}
		if i == 0 && fn.Signature.Recv() != nil && !(ct != nil && ct.Nilable) {
			if _, ok := p.Type().Underlying().(*types.Pointer); ok {
				f.assume(not(eq(n, "0")))
				vc.assumed["method receivers are non-nil at entry"] = true
			}
		}
		vc.paramVals[p.Name()] = specVal{term: n, typ: p.Type()}
		vc.pin(n, p.Type())
	}
	for _, fv := range fn.FreeVars {
		n := vc.fresh("fv."+fv.Name(), vc.sortOf(fv.Type()))
		v := Val{t: n}
		f.vals[fv] = v
		f.freeVars = append(f.freeVars, v)
		f.assume(and(vc.typeFacts(n, fv.Type(), f.entry), not(eq(n, "0"))))
	}
	// behavioural subtyping: a method that implements an interface method under contract is checked against that
	// contract too (its own precondition must follow from the interface's, the interface's postconditions and frame
	// must hold at every return)
	var ict *Contract
	var isig *types.Signature
	if ct != nil && ct.Implements != "" {
		ict = eng.cs.Contracts["iface::"+qualify(ct.Pkg, ct.Implements)]
		dot := strings.LastIndex(ct.Implements, ".")
		var itype types.Type
		if ipkg := eng.pkgByPath(ct.Pkg); dot > 0 && ipkg != nil {
			if o := ipkg.Scope().Lookup(ct.Implements[:dot]); o != nil {
				itype = o.Type()
			}
		}
		if ict == nil || itype == nil || len(fn.Params) == 0 {
			return nil, fmt.Errorf("spec error: implements %s: no such interface contract", ct.Implements)
		}
		it, ok := itype.Underlying().(*types.Interface)
		if !ok {
			return nil, fmt.Errorf("spec error: implements %s: not an interface", ct.Implements)
		}
		for i := 0; i < it.NumMethods(); i++ {
			if it.Method(i).Name() == ct.Implements[dot+1:] {
				isig = it.Method(i).Type().(*types.Signature)
			}
		}
		if isig == nil || isig.Params().Len() != len(fn.Params)-1 {
			return nil, fmt.Errorf("spec error: implements %s: method not found or arity mismatch", ct.Implements)
		}
		if !types.Implements(fn.Params[0].Type(), it) {
			return nil, fmt.Errorf("spec error: implements %s: receiver type does not implement the interface", ct.Implements)
		}
		ict.used = true
		names := []string{"recv"}
		for i := 0; i < isig.Params().Len(); i++ {
			names = append(names, isig.Params().At(i).Name())
		}
		for i, n := range ict.ParamNames {
			if i < len(names) {
				names[i] = n
			}
		}
		rt := fn.Params[0].Type()
		var recv string
		if isRefLike(rt) {
			recv = sx("mk-iface", vc.typeTag(rt), f.params[0].t)
		} else {
			box := vc.fresh("recvbox", "Int")
			f.assume(and(sx(">", box, "0"), sx("select", vc.lookup(f.entry, "alloc", "(Array Int Bool)"), box)))
			f.assume(eq(f.loadAt(Val{t: box}, rt, f.entry), f.params[0].t))
			recv = sx("mk-iface", vc.typeTag(rt), box)
		}
		vc.implVars = map[string]specVal{names[0]: {term: recv, typ: itype}}
		for i := 1; i < len(names); i++ {
			if names[i] == "" || names[i] == "_" {
				continue
			}
			vc.implVars[names[i]] = specVal{term: f.params[i].t, typ: fn.Params[i].Type()}
		}
	}
	env := f.specEnv(f.entry)
	if ict != nil {
		for _, cl := range ict.Requires {
			f.assume(env.trBool(cl.Expr))
		}
		f.R0 = f.R
		for _, cl := range ct.Requires {
			c := env.trBool(cl.Expr)
			o := f.obligeAt(f.R, "implpre", cl.Label, cl.Props, c, fn.Pos())
			o.Src = "follows from the precondition of " + ct.Implements + ": " + cl.Src
			f.assume(c)
		}
	} else if ct != nil {
		for _, cl := range ct.Requires {
			f.assume(env.trBool(cl.Expr))
		}
	}
	if ct != nil {
		for _, u := range ct.Uses {
			call, ok := u.Expr.(*ECall)
			if !ok {
				return nil, fmt.Errorf("spec error: uses clause must be lemma(args): %s", u.Src)
			}
			var lm *Lemma
			for _, l := range eng.cs.Lemmas {
				if l.Name == call.Fn {
					lm = l
				}
			}
			if lm == nil || len(lm.Params) != len(call.Args) {
				return nil, fmt.Errorf("spec error: unknown lemma or wrong arity in uses clause: %s", u.Src)
			}
			le := &specEnv{vc: vc, pkg: eng.pkgByPath(lm.Pkg), vars: map[string]specVal{}, st: f.entry, old: f.entry, where: "uses " + lm.Name}
			for i, p := range lm.Params {
				a := env.tr(call.Args[i])
				if p.Typ == "mathint" || p.Typ == "int" {
					le.vars[p.Name] = mathInt(a.term)
				} else {
					le.vars[p.Name] = a
				}
			}
			f.assume(le.trBool(lm.Expr))
			vc.lemmaDone[lm.Name] = true
			kind := "lemma"
			if lm.Axiom {
				kind = "axiom (unproved, trusted)"
			}
			vc.assumed[kind+" "+lm.Name+": "+lm.Src] = true
		}
	}
	f.R0 = f.R
	// vacuity: precondition satisfiable
	co := f.obligeAt(f.R0, "cover", "pre", nil, "false", fn.Pos())
	co.Cover = true
	f.run()
	// obligations generated after the run (postconditions, frames at returns) are not "in" the last executed block:
	// no covering path conditions for them (a case split over the wrong block's paths would not cover the return)
	f.cur = nil
	if ct != nil {
		for callee := range ct.AtCalls {
			if f.atCallSeen[callee] == 0 {
				o := f.obligeAt("true", "stale", "atcall."+callee, nil, "false", fn.Pos())
				o.Src = "the contract has atcall clauses for " + callee + " but the function does not call it: contract stale"
			}
		}
	}
	// postconditions at each return
	afterUsed := map[*Clause]bool{}
	if ct != nil {
		for _, cl := range ct.Ensures {
			if cl.After == "" {
				continue
			}
			any := false
			for _, r := range f.rets {
				if dominatedByCallTo(r.blk, cl.After) {
					any = true
				}
			}
			if !any {
				o := f.obligeAt("true", "stale", "ensures-after."+cl.After+"."+cl.Label, cl.Props, "false", fn.Pos())
				o.Src = "the contract has an 'ensures after " + cl.After + "' clause but no return is dominated by a call to it: contract stale"
			}
		}
	}
	for ri, r := range f.rets {
		tag := ""
		if len(f.rets) > 1 {
			tag = fmt.Sprintf("@ret%d", ri+1)
		}
		penv := f.specEnv(r.st)
		penv.old = f.entry
		bindResults(penv, fn.Signature, r.results)
		if ct != nil {
			// clauses are checked in order; each may use the ones before it (they are proved first)
			Rk := r.R
			for _, cl := range ct.Ensures {
				if cl.After != "" {
					// 'ensures after callee': only at the returns every path to which goes through a call to callee
					if !dominatedByCallTo(r.blk, cl.After) {
						continue
					}
					afterUsed[cl] = true
				}
				c := penv.trBool(cl.Expr)
				o := f.obligeAt(Rk, "post", cl.Label+tag, cl.Props, c, r.pos)
				o.Src = cl.Src
				Rk = vc.define("R.post", "Bool", and(Rk, c))
			}
			if ict != nil {
				for _, cl := range ict.Ensures {
					c := penv.trBool(cl.Expr)
					o := f.obligeAt(Rk, "post", "iface."+cl.Label+tag, cl.Props, c, r.pos)
					o.Src = ct.Implements + ": " + cl.Src
					Rk = vc.define("R.post", "Bool", and(Rk, c))
				}
				if ict.HasMod {
					eff := eng.contractEffects(ict, nil, isig)
					if !eff["*"] {
						if vc.didHavocAll && ri == 0 {
							o := f.obligeAt("true", "frame", "iface.unknown-callee-effects", nil, "false", fn.Pos())
							o.Src = "the body calls code with unknown effects but the modifies clause of " + ct.Implements + " does not say '*'"
						}
						actual := eng.bodyEffects(fn)
						delete(actual, "*")
						known := map[string]bool{}
						for h := range vc.heapSort {
							known[h] = true
						}
						for _, fm := range f.frameConds(ict, f.specEnv(f.entry), f.entry, r.st, union(eff, known)) {
							o := f.obligeAt(r.R, "frame", "iface."+fm.heap+tag, nil, fm.formula, r.pos)
							o.Src = "only the objects listed in the modifies clause of " + ct.Implements + " (or allocated during the call) change in heap " + fm.heap
						}
					}
				}
			}
			if ct.HasMod {
				eff := eng.contractEffects(ct, fn, fn.Signature)
				actual := eng.bodyEffects(fn)
				if !eff["*"] {
					if vc.didHavocAll && ri == 0 {
						o := f.obligeAt("true", "frame", "unknown-callee-effects", nil, "false", fn.Pos())
						o.Src = "the body calls code with unknown effects (interface method or function value without contract) but the modifies clause does not say '*'"
					}
					delete(actual, "*")
					known := map[string]bool{}
					for h := range vc.heapSort {
						known[h] = true
					}
					for _, fm := range f.frameConds(ct, f.specEnv(f.entry), f.entry, r.st, union(eff, known)) {
						o := f.obligeAt(r.R, "frame", fm.heap+tag, nil, fm.formula, r.pos)
						o.Src = "only the objects listed in the modifies clause (or allocated during the call) change in heap " + fm.heap
					}
				}
			}
		}
		if ct != nil {
			ap := vc.lookup(f.entry, "alloc", allocSort)
			fo := vc.freshOnlyHeaps(ct)
			if ict != nil {
				fo = append(fo, vc.freshOnlyHeaps(ict)...)
			}
			for _, h := range fo {
				srt, _ := vc.sortForHeap(h)
				hp := vc.lookup(f.entry, h, srt)
				hq := vc.lookup(r.st, h, srt)
				if hp == hq {
					continue
				}
				o := f.obligeAt(r.R, "frame", "freshonly:"+h+tag, nil, freshOnlyFormula(ap, hp, hq), r.pos)
				o.Src = "freshonly: objects allocated before the call are unchanged in heap " + h
			}
		}
		c := f.obligeAt(r.R, "cover", "ret"+tag, nil, "false", r.pos)
		c.Cover = true
	}
	return vc, nil
}

func union(a, b map[string]bool) map[string]bool {
	out := map[string]bool{}
	for k := range a {
		out[k] = true
	}
	for k := range b {
		out[k] = true
	}
	return out
}

func (eng *Engine) bodyEffects(fn *ssa.Function) map[string]bool {
	out := map[string]bool{}
	for _, b := range fn.Blocks {
		for _, ins := range b.Instrs {
			eng.instrEffects(ins, out, fn)
		}
	}
	return out
}

// smtLight renders obligation i with every quantified hypothesis dropped (a weaker set of hypotheses, so a proof
// from it is a proof): the cheap first attempt that settles most safety obligations of large functions.
func (vc *VC) smtLight(i int) string {
	return vc.smtLightPath(i, -1)
}

// smtLightPath: light rendering restricted to covering path k (k < 0: the merged guard).
func (vc *VC) smtLightPath(i, k int) string {
	vc.emitLemmaAxioms()
	var sb strings.Builder
	if vc.prefixLight != "" && vc.prefixLightN == len(vc.out) {
		sb.WriteString(vc.prefixLight)
		return vc.lightTail(&sb, i, k)
	}
	for _, l := range vc.out {
		for _, ln := range strings.Split(l, "\n") {
			t := strings.TrimSpace(ln)
			switch {
			case strings.HasPrefix(t, "(assert (forall"):
				if strings.Contains(t, "(elt.") && strings.Contains(t, ":pattern ((elt.") {
					sb.WriteString(ln + "\n")
				}
				continue
			case strings.HasPrefix(t, "(assert (=> R") && (strings.Contains(t, "(forall ") || strings.Contains(t, "(exists ")):
				// (assert (=> R!k (and R!prev A))) with quantified A  ==>  R!k => R!prev
				f := strings.Fields(t)
				if len(f) >= 5 && f[3] == "(and" {
					sb.WriteString(fmt.Sprintf("(assert (=> %s %s))\n", f[2], strings.TrimRight(f[4], ")")))
				}
				continue
			case strings.HasPrefix(t, "(assert (= ") && (strings.Contains(t, "(forall ") || strings.Contains(t, "(exists ")):
				continue // a defined Boolean with a quantified body: left unconstrained
			}
			sb.WriteString(ln + "\n")
		}
	}
	vc.prefixLight = sb.String()
	vc.prefixLightN = len(vc.out)
	return vc.lightTail(&sb, i, k)
}

func (vc *VC) lightTail(sb *strings.Builder, i, k int) string {
	o := vc.obls[i]
	if k >= 0 {
		sb.WriteString(fmt.Sprintf("(assert (and %s %s (not %s)))\n", o.Guard, o.Paths[k], o.Cond))
	} else {
		sb.WriteString(fmt.Sprintf("(assert (and %s (not %s)))\n", o.Guard, o.Cond))
	}
	sb.WriteString("(check-sat)\n")
	return sb.String()
}

var heapVerRe = regexp.MustCompile(`([A-Za-z][A-Za-z0-9_.]*)[@!][0-9]+`)

// smtFocused renders obligation i keeping a quantified path hypothesis only when it speaks about a heap that the
// goal mentions (or about allocation). Dropping hypotheses is sound; frame goals need nothing else.
func (vc *VC) smtFocused(i int) string {
	vc.emitLemmaAxioms()
	o := vc.obls[i]
	want := map[string]bool{}
	for _, m := range heapVerRe.FindAllStringSubmatch(o.Cond, -1) {
		want[m[1]] = true
	}
	if vc.lineInfo == nil || vc.prefixN != len(vc.out) {
		vc.lineInfo = nil
		for _, l := range vc.out {
			for _, ln := range strings.Split(l, "\n") {
				t := strings.TrimSpace(ln)
				fl := focusLine{text: ln}
				if strings.HasPrefix(t, "(assert (=> R") && (strings.Contains(t, "(forall ") || strings.Contains(t, "(exists ")) {
					f := strings.Fields(t)
					if len(f) >= 5 && f[3] == "(and" {
						fl.quant = true
						fl.weak = fmt.Sprintf("(assert (=> %s %s))", f[2], strings.TrimRight(f[4], ")"))
						fl.heaps = map[string]bool{}
						ms := heapVerRe.FindAllStringSubmatch(t, -1)
						fl.onlyAll = len(ms) > 0
						for _, m := range ms {
							if m[1] == "R" || strings.HasPrefix(m[1], "R.") || m[1] == "alloc" {
								continue
							}
							fl.heaps[m[1]] = true
							fl.onlyAll = false
						}
						for k := range vc.keepHyps {
							if strings.Contains(t, k) {
								fl.quant = false // always kept
							}
						}
					}
				}
				vc.lineInfo = append(vc.lineInfo, fl)
			}
		}
		vc.prefixN = len(vc.out)
	}
	var sb strings.Builder
	for _, fl := range vc.lineInfo {
		if fl.quant && !fl.onlyAll {
			rel := false
			for h := range fl.heaps {
				if want[h] {
					rel = true
					break
				}
			}
			if !rel {
				sb.WriteString(fl.weak)
				sb.WriteString("\n")
				continue
			}
		}
		sb.WriteString(fl.text)
		sb.WriteString("\n")
	}
	sb.WriteString(fmt.Sprintf("(assert (and %s (not %s)))\n", o.Guard, o.Cond))
	sb.WriteString("(check-sat)\n")
	return sb.String()
}

// smtPath renders obligation i restricted to one of its covering path conditions.
func (vc *VC) smtPath(i, k int) string {
	vc.emitLemmaAxioms()
	var sb strings.Builder
	for _, l := range vc.out {
		sb.WriteString(l)
		sb.WriteString("\n")
	}
	o := vc.obls[i]
	sb.WriteString(fmt.Sprintf("(assert (and %s %s (not %s)))\n", o.Guard, o.Paths[k], o.Cond))
	sb.WriteString("(check-sat)\n")
	return sb.String()
}

// smtSingle renders a query file for one obligation only (no push/pop: the solvers' non-incremental strategies apply).
func (vc *VC) smtSingle(i int) string {
	vc.emitLemmaAxioms()
	if vc.prefixFull == "" || vc.prefixFullN != len(vc.out) {
		var pb strings.Builder
		for _, l := range vc.out {
			pb.WriteString(l)
			pb.WriteString("\n")
		}
		vc.prefixFull = pb.String()
		vc.prefixFullN = len(vc.out)
	}
	var sb strings.Builder
	sb.WriteString(vc.prefixFull)
	o := vc.obls[i]
	if o.Cover {
		sb.WriteString(fmt.Sprintf("(assert %s)\n", o.Guard))
	} else {
		sb.WriteString(fmt.Sprintf("(assert (and %s (not %s)))\n", o.Guard, o.Cond))
	}
	sb.WriteString("(check-sat)\n")
	return sb.String()
}

// smtText renders the whole query file: definitions, then one push/check/pop per obligation.
func (vc *VC) smtText(only map[int]bool) string {
	vc.emitLemmaAxioms()
	var sb strings.Builder
	for _, l := range vc.out {
		sb.WriteString(l)
		sb.WriteString("\n")
	}
	// interface implementation facts for the tags that occurred
	for ik := range vc.ifaceImpl {
		_ = ik
	}
	for i, o := range vc.obls {
		if only != nil && !only[i] {
			continue
		}
		sb.WriteString(fmt.Sprintf("(echo \"OBL %d\")\n(push 1)\n", i))
		if o.Cover {
			sb.WriteString(fmt.Sprintf("(assert %s)\n", o.Guard))
		} else {
			sb.WriteString(fmt.Sprintf("(assert (and %s (not %s)))\n", o.Guard, o.Cond))
		}
		sb.WriteString("(check-sat)\n(pop 1)\n")
	}
	return sb.String()
}

// checkImmutables: no function of the module (other than package initialisers) stores to a variable declared immutable.
func (eng *Engine) checkImmutables() []string {
	var out []string
	if len(eng.cs.Immutables) == 0 {
		return nil
	}
	for _, fn := range eng.funcsByKey {
		if fn.Name() == "init" || strings.HasPrefix(fn.Name(), "init#") {
			continue
		}
		for _, b := range fn.Blocks {
			for _, ins := range b.Instrs {
				st, ok := ins.(*ssa.Store)
				if !ok {
					continue
				}
				var g *ssa.Global
				switch a := st.Addr.(type) {
				case *ssa.Global:
					g = a
				case *ssa.IndexAddr:
					if ld, ok := a.X.(*ssa.UnOp); ok {
						if gg, ok := ld.X.(*ssa.Global); ok {
							g = gg
						}
					}
				}
				if g != nil && g.Pkg != nil && eng.cs.Immutables[g.Pkg.Pkg.Path()+"::"+g.Name()] != nil {
					out = append(out, fmt.Sprintf("package variable %s is declared immutable in the contracts but %s stores to it (%s)", g.Name(), funcDisplay(fn), eng.fset.Position(st.Pos())))
				}
			}
		}
	}
	sort.Strings(out)
	return out
}

// dominatedByCallTo reports whether block b, or one of its dominators, contains a call to a function or method named callee.
func dominatedByCallTo(b *ssa.BasicBlock, callee string) bool {
	for d := b; d != nil; d = d.Idom() {
		for _, ins := range d.Instrs {
			c, ok := ins.(*ssa.Call)
			if !ok {
				continue
			}
			cn := ""
			if c.Call.IsInvoke() {
				cn = c.Call.Method.Name()
			} else if sc := c.Call.StaticCallee(); sc != nil {
				cn = sc.Name()
			}
			if cn == callee {
				return true
			}
		}
	}
	return false
}
