package main

// Type-level write effects: which heaps a function may store to.

import (
	"fmt"
	"os"
	"go/types"
	"strings"

	"golang.org/x/tools/go/ssa"
)

type heapDesc struct {
	kind string // field, elem, ptr, maphas, mapval, global
	t1   types.Type
	t2   types.Type
}

func (eng *Engine) noteHeap(name, kind string, t1, t2 types.Type) {
	if _, ok := eng.heapDescs[name]; !ok {
		eng.heapDescs[name] = heapDesc{kind, t1, t2}
	}
}

// sortForHeap gives the SMT sort of a heap known to the engine by name (declaring datatypes in vc as needed).
func (vc *VC) sortForHeap(name string) (string, bool) {
	if s, ok := vc.heapSort[name]; ok {
		return s, true
	}
	switch name {
	case "alloc", "Gh.chan.closed":
		return allocSort, true
	case "Gh.iter.seen.Int":
		return "(Array Int (Array Int Bool))", true
	case "Gh.chan.sent":
		return "(Array Int Int)", true
	}
	if strings.HasPrefix(name, "Gh.") {
		// ghost fields: Gh.<Owner>.<name>
		parts := strings.Split(name, ".")
		if g := vc.eng.cs.Ghosts[parts[len(parts)-1]]; g != nil {
			pe := &specEnv{vc: vc, pkg: vc.eng.pkgByPath(g.Pkg), where: "ghost " + g.Name}
			srt, _ := pe.sortOfName(g.Typ)
			return "(Array Int " + srt + ")", true
		}
	}
	d, ok := vc.eng.heapDescs[name]
	if !ok {
		return "", false
	}
	switch d.kind {
	case "field", "ptr":
		return "(Array Int " + vc.sortOf(d.t1) + ")", true
	case "elem":
		return "(Array Int (Array Int " + vc.sortOf(d.t1) + "))", true
	case "maphas":
		return "(Array Int (Array " + vc.sortOf(d.t1) + " Bool))", true
	case "mapval":
		return "(Array Int (Array " + vc.sortOf(d.t1) + " " + vc.sortOf(d.t2) + "))", true
	case "global":
		return vc.sortOf(d.t1), true
	}
	return "", false
}

func (eng *Engine) structLeafHeaps(t types.Type, out map[string]bool) {
	st, ok := t.Underlying().(*types.Struct)
	if !ok {
		return
	}
	for i := 0; i < st.NumFields(); i++ {
		ft := st.Field(i).Type()
		if _, isSt := isStruct(ft); isSt {
			eng.structLeafHeaps(ft, out)
		} else {
			out[fieldHeapName(t, i)] = true
			eng.noteHeap(fieldHeapName(t, i), "field", ft, nil)
		}
	}
}

func (eng *Engine) mapHeapsEff(mt *types.Map, out map[string]bool, both bool) {
	out[mapHasHeap(mt)] = true
	eng.noteHeap(mapHasHeap(mt), "maphas", mt.Key(), nil)
	eng.noteHeap(mapValHeap(mt), "mapval", mt.Key(), mt.Elem())
	// make, update and delete all write the value heap too (canonical form: zero value at absent keys)
	_ = both
	out[mapValHeap(mt)] = true
}

func (eng *Engine) cellHeaps(t types.Type, out map[string]bool) {
	// heaps written when storing a value of type t through a generic pointer
	if _, ok := isStruct(t); ok {
		eng.structLeafHeaps(t, out)
		return
	}
	out[ptrHeapName(t)] = true
	eng.noteHeap(ptrHeapName(t), "ptr", t, nil)
}

func (eng *Engine) elemHeaps(et types.Type, out map[string]bool) {
	if _, ok := isStruct(et); ok {
		eng.structLeafHeaps(et, out)
		return
	}
	out[elemHeapName(et)] = true
	eng.noteHeap(elemHeapName(et), "elem", et, nil)
}

func (eng *Engine) storeEffects(addr ssa.Value, out map[string]bool) {
	t := deref(addr.Type())
	switch a := addr.(type) {
	case *ssa.FieldAddr:
		st := deref(a.X.Type())
		ft := st.Underlying().(*types.Struct).Field(a.Field).Type()
		if _, ok := isStruct(ft); ok {
			eng.structLeafHeaps(ft, out)
		} else {
			out[fieldHeapName(st, a.Field)] = true
			eng.noteHeap(fieldHeapName(st, a.Field), "field", ft, nil)
		}
	case *ssa.IndexAddr:
		eng.elemHeaps(elemTypeOf(a.X.Type()), out)
	case *ssa.Global:
		if _, ok := isStruct(t); ok {
			eng.structLeafHeaps(t, out)
		} else {
			out[globalHeapName(a)] = true
			eng.noteHeap(globalHeapName(a), "global", t, nil)
		}
	default:
		eng.cellHeaps(t, out)
	}
}

func (eng *Engine) allocEffects(t types.Type, out map[string]bool) {
	out["alloc"] = true
	switch u := t.Underlying().(type) {
	case *types.Struct:
		eng.structLeafHeaps(t, out)
	case *types.Array:
		eng.elemHeaps(u.Elem(), out)
	default:
		out[ptrHeapName(t)] = true
		eng.noteHeap(ptrHeapName(t), "ptr", t, nil)
	}
}

// instrEffects adds the heaps possibly written by one instruction.
func (eng *Engine) instrEffects(ins ssa.Instruction, out map[string]bool, in *ssa.Function) {
	switch x := ins.(type) {
	case *ssa.Store:
		eng.storeEffects(x.Addr, out)
	case *ssa.MapUpdate:
		eng.mapHeapsEff(x.Map.Type().Underlying().(*types.Map), out, true)
	case *ssa.Alloc:
		eng.allocEffects(deref(x.Type()), out)
	case *ssa.MakeSlice:
		out["alloc"] = true
		eng.elemHeaps(x.Type().Underlying().(*types.Slice).Elem(), out)
	case *ssa.MakeMap:
		out["alloc"] = true
		eng.mapHeapsEff(x.Type().Underlying().(*types.Map), out, false)
	case *ssa.MakeChan:
		out["alloc"] = true
	case *ssa.MakeInterface:
		if !isRefLike(x.X.Type()) {
			out["alloc"] = true
			eng.cellHeaps(x.X.Type(), out)
		}
	case *ssa.Convert:
		if isString(x.X.Type()) {
			if sl, ok := x.Type().Underlying().(*types.Slice); ok {
				out["alloc"] = true
				eng.elemHeaps(sl.Elem(), out)
			}
		}
	case *ssa.Call:
		eng.callEffects(&x.Call, out, in)
	case *ssa.Defer:
		eng.callEffects(&x.Call, out, in)
	case *ssa.Range:
		if mt, ok := x.X.Type().Underlying().(*types.Map); ok {
			out["alloc"] = true
			out["Gh.iter.seen."+sanitize(sortNameOfKey(mt.Key()))] = true
		}
	case *ssa.Next:
		if rng, ok := x.Iter.(*ssa.Range); ok {
			if mt, ok := rng.X.Type().Underlying().(*types.Map); ok {
				out["Gh.iter.seen."+sanitize(sortNameOfKey(mt.Key()))] = true
			}
		}
	case *ssa.Go:
		// not followed
	case *ssa.Send:
		out["Gh.chan.sent"] = true
	case *ssa.Select:
		for _, st := range x.States {
			if st.Dir == types.SendOnly {
				out["Gh.chan.sent"] = true
			}
		}
	}
}

func (eng *Engine) callEffects(c *ssa.CallCommon, out map[string]bool, in *ssa.Function) {
	if c.IsInvoke() {
		key := ifaceKey(c.Value.Type(), c.Method)
		if ct := eng.cs.Contracts["iface::"+key]; ct != nil {
			for h := range eng.contractEffects(ct, nil, c.Method.Type().(*types.Signature)) {
				out[h] = true
			}
			return
		}
		if os.Getenv("GVC_WHYSTAR") != "" {
			fmt.Fprintf(os.Stderr, "star: interface call %s without contract in %s\n", key, in)
		}
		out["*"] = true
		return
	}
	switch callee := c.Value.(type) {
	case *ssa.Builtin:
		switch callee.Name() {
		case "append":
			out["alloc"] = true
			eng.elemHeaps(c.Args[0].Type().Underlying().(*types.Slice).Elem(), out)
		case "copy":
			eng.elemHeaps(elemTypeOf(c.Args[0].Type()), out)
		case "delete":
			eng.mapHeapsEff(c.Args[0].Type().Underlying().(*types.Map), out, false)
		case "close":
			out["Gh.chan.closed"] = true
		}
	case *ssa.Function:
		for h := range eng.effects(callee) {
			out[h] = true
		}
	case *ssa.MakeClosure:
		for h := range eng.effects(callee.Fn.(*ssa.Function)) {
			out[h] = true
		}
	case *ssa.Parameter:
		if callee.Parent() != nil && callee.Parent().Pkg != nil {
			key := callee.Parent().Pkg.Pkg.Path() + "::callback:" + funcKey(callee.Parent()) + "." + callee.Name()
			if ct := eng.cs.Contracts[key]; ct != nil {
				for h := range eng.callbackEffects(ct, callee) {
					out[h] = true
				}
				return
			}
		}
		out["*"] = true
	default:
		// function value: if it is a closure created in this function, use its effects
		if mc, ok := c.Value.(*ssa.MakeClosure); ok {
			for h := range eng.effects(mc.Fn.(*ssa.Function)) {
				out[h] = true
			}
			return
		}
		// local variable holding a closure defined in the same function (common idiom)
		if fn := closureOf(c.Value); fn != nil {
			for h := range eng.effects(fn) {
				out[h] = true
			}
			return
		}
		if os.Getenv("GVC_WHYSTAR") != "" {
			fmt.Fprintf(os.Stderr, "star: call through a function value in %s\n", in)
		}
		out["*"] = true
	}
}

// closureOf resolves `f := func(){}; f()` patterns.
func closureOf(v ssa.Value) *ssa.Function {
	switch x := v.(type) {
	case *ssa.MakeClosure:
		return x.Fn.(*ssa.Function)
	case *ssa.Function:
		return x
	}
	return nil
}

// effects computes (memoised, recursion-safe) the type-level write effect of fn.
func (eng *Engine) effects(fn *ssa.Function) map[string]bool {
	if e, ok := eng.effCache[fn]; ok {
		return e
	}
	if ct := eng.contractFor(fn); ct != nil && !(ct.Inline && len(fn.Blocks) > 0 && eng.inModule(fn)) && (ct.HasMod || len(fn.Blocks) == 0 || !eng.inModule(fn)) {
		// (a contract marked inline is never applied at a call site: its body's effects count, not its modifies clause)
		e := eng.contractEffects(ct, fn, fn.Signature)
		eng.effCache[fn] = e
		return e
	}
	if len(fn.Blocks) == 0 || (!eng.inModule(fn) && fn.Synthetic == "") {
		e := eng.defaultExternEffects(fn.Signature, fn)
		eng.effCache[fn] = e
		return e
	}
	if eng.effBusy[fn] {
		eng.effRecursed = true
		return map[string]bool{} // recursion: the outermost computation accumulates the whole cycle
	}
	eng.effBusy[fn] = true
	out := map[string]bool{}
	for _, b := range fn.Blocks {
		for _, ins := range b.Instrs {
			eng.instrEffects(ins, out, fn)
		}
	}
	for _, an := range fn.AnonFuncs {
		_ = an
	}
	delete(eng.effBusy, fn)
	if len(eng.effBusy) == 0 {
		eng.effRecursed = false
		eng.effCache[fn] = out
	} else if !eng.effRecursed {
		eng.effCache[fn] = out
	}
	return out
}

var pureExterns = map[string]bool{
	"errors.New": true, "fmt.Errorf": true, "fmt.Sprintf": true, "fmt.Sprint": true, "strconv.Itoa": true, "strconv.Atoi": true,
	"strconv.ParseFloat": true, "strconv.FormatInt": true, "strconv.FormatFloat": true, "strconv.ParseInt": true, "strconv.Quote": true,
	"strings.Contains": true, "strings.HasPrefix": true, "strings.HasSuffix": true, "strings.Split": true, "strings.TrimSpace": true, "strings.ToUpper": true,
	"strings.Join": true, "strings.Index": true, "strings.Replace": true, "strings.ReplaceAll": true, "strings.EqualFold": true, "strings.Fields": true,
	"strings.ToLower": true, "strings.Trim": true, "strings.TrimLeft": true, "strings.TrimRight": true, "strings.Repeat": true, "strings.Count": true,
	"bytes.IndexByte": true, "bytes.Index": true, "bytes.Count": true, "bytes.Equal": true, "bytes.HasPrefix": true, "bytes.Contains": true,
	"bytes.Compare": true,
	"time.Now":      true, "time.Since": true, "time.Date": true, "time.Parse": true, "time.Duration.String": true, "time.Unix": true,
	"math.Abs": true, "math.Floor": true, "math.Pow": true, "math.Pow10": true,
	"errors.Is": true, "errors.As": false, "errors.Unwrap": true,
	"runtime.Gosched": true,
}

func externName(fn *ssa.Function) string {
	if fn.Signature.Recv() != nil {
		rt := fn.Signature.Recv().Type()
		s := types.TypeString(rt, func(p *types.Package) string { return p.Path() })
		return "(" + s + ")." + fn.Name()
	}
	if fn.Pkg != nil {
		return fn.Pkg.Pkg.Path() + "." + fn.Name()
	}
	return fn.Name()
}

func (eng *Engine) defaultExternEffects(sig *types.Signature, fn *ssa.Function) map[string]bool {
	out := map[string]bool{}
	if fn != nil {
		n := externName(fn)
		if pureExterns[n] {
			return out
		}
		if fn.Signature.Recv() != nil {
			// methods of time.Time / time.Duration etc. with value receivers are pure
			if _, isPtr := fn.Signature.Recv().Type().(*types.Pointer); !isPtr {
				rt := fn.Signature.Recv().Type()
				if nm, ok := rt.(*types.Named); ok && nm.Obj().Pkg() != nil && nm.Obj().Pkg().Path() == "time" {
					return out
				}
			}
		}
	}
	add := func(t types.Type) {
		eng.reachEffects(t, out, map[string]bool{}, 0)
	}
	if sig.Recv() != nil {
		add(sig.Recv().Type())
	}
	for i := 0; i < sig.Params().Len(); i++ {
		add(sig.Params().At(i).Type())
	}
	return out
}

// reachEffects: heaps writable through a value of type t handed to unknown code.
func (eng *Engine) reachEffects(t types.Type, out map[string]bool, seen map[string]bool, depth int) {
	k := t.String()
	if seen[k] || depth > 6 {
		return
	}
	seen[k] = true
	switch u := t.Underlying().(type) {
	case *types.Pointer:
		et := u.Elem()
		if st, ok := isStruct(et); ok {
			eng.structLeafHeaps(et, out)
			for i := 0; i < st.NumFields(); i++ {
				eng.reachEffects(st.Field(i).Type(), out, seen, depth+1)
			}
		} else {
			eng.cellHeaps(et, out)
			eng.reachEffects(et, out, seen, depth+1)
		}
	case *types.Slice:
		eng.elemHeaps(u.Elem(), out)
		eng.reachEffects(u.Elem(), out, seen, depth+1)
	case *types.Map:
		eng.mapHeapsEff(u, out, true)
		eng.reachEffects(u.Elem(), out, seen, depth+1)
	case *types.Struct:
		for i := 0; i < u.NumFields(); i++ {
			eng.reachEffects(u.Field(i).Type(), out, seen, depth+1)
		}
	case *types.Interface, *types.Signature:
		out["*"] = true
	case *types.Chan:
	}
}

// contractEffects: the heap-level effect set a contract declares (or the computed one).
func (eng *Engine) contractEffects(ct *Contract, fn *ssa.Function, sig *types.Signature) map[string]bool {
	if !ct.HasMod {
		if fn != nil && len(fn.Blocks) > 0 && eng.inModule(fn) {
			// computed from the body
			if eng.effBusy[fn] {
				return map[string]bool{}
			}
			save := ct.HasMod
			_ = save
			eng.effBusy[fn] = true
			out := map[string]bool{}
			for _, b := range fn.Blocks {
				for _, ins := range b.Instrs {
					eng.instrEffects(ins, out, fn)
				}
			}
			delete(eng.effBusy, fn)
			return out
		}
		return eng.defaultExternEffects(sig, fn)
	}
	out := map[string]bool{}
	if ct.Pure {
		return out
	}
	pkg := eng.pkgByPath(ct.Pkg)
	names, ts := paramNamesTypes(ct, fn, sig)
	if ct.Kind == "iface" {
		names = []string{"recv"}
		ts = []types.Type{nil}
		if sig.Recv() != nil {
			ts[0] = sig.Recv().Type()
		}
		for i := 0; i < sig.Params().Len(); i++ {
			names = append(names, sig.Params().At(i).Name())
			ts = append(ts, sig.Params().At(i).Type())
		}
		if len(ct.ParamNames) > 0 {
			for i, n := range ct.ParamNames {
				if i < len(names) {
					names[i] = n
				}
			}
		}
	}
	if fn != nil {
		// closures: captured variables are visible to the contract under their names
		for _, fv := range fn.FreeVars {
			if et := deref(fv.Type()); et != nil {
				names = append(names, fv.Name())
				ts = append(ts, et)
			}
		}
	}
	for _, it := range ct.Modifies {
		switch {
		case it.All:
			out["*"] = true
		case it.Heap != "":
			if strings.HasSuffix(it.Heap, "*") {
				// prefix: expand over all struct types' fields lazily: keep as pattern marker
				out[it.Heap] = true
				eng.expandHeapPattern(it.Heap, out)
			} else {
				out[it.Heap] = true
			}
		default:
			eng.modItemHeaps(it, names, ts, pkg, out)
		}
	}
	out["alloc"] = true
	// writes to objects allocated during the call happen in heaps the clause need not list
	if fn != nil && len(fn.Blocks) > 0 && eng.inModule(fn) && !out["*"] && !eng.effBusy[fn] {
		eng.effBusy[fn] = true
		for h := range eng.bodyEffects(fn) {
			if h != "*" {
				out[h] = true
			}
		}
		delete(eng.effBusy, fn)
	}
	return out
}

func (eng *Engine) expandHeapPattern(pat string, out map[string]bool) {
	delete(out, pat)
	prefix := strings.TrimSuffix(pat, "*")
	for _, h := range eng.allFieldHeaps() {
		if strings.HasPrefix(h, prefix) {
			out[h] = true
		}
	}
}

func (eng *Engine) allFieldHeaps() []string {
	if eng.fieldHeaps != nil {
		return eng.fieldHeaps
	}
	seen := map[string]bool{}
	for _, p := range eng.pkgs {
		sc := p.Pkg.Scope()
		for _, n := range sc.Names() {
			if tn, ok := sc.Lookup(n).(*types.TypeName); ok {
				if _, isSt := tn.Type().Underlying().(*types.Struct); isSt {
					eng.structLeafHeaps(tn.Type(), seen)
				}
			}
		}
	}
	for h := range seen {
		eng.fieldHeaps = append(eng.fieldHeaps, h)
	}
	return eng.fieldHeaps
}

// modItemHeaps resolves an object-level modifies item to heap names using static types only.
func (eng *Engine) modItemHeaps(it ModItem, names []string, ts []types.Type, pkg *types.Package, out map[string]bool) {
	var typeOf func(e Expr) types.Type
	typeOf = func(e Expr) types.Type {
		switch n := e.(type) {
		case *EIdent:
			for i, nm := range names {
				if nm == n.Name {
					return ts[i]
				}
			}
			if pkg != nil {
				if o := pkg.Scope().Lookup(n.Name); o != nil {
					return o.Type()
				}
			}
		case *ESel:
			if n.Ghost {
				return nil
			}
			t := typeOf(n.X)
			if t == nil {
				return nil
			}
			if p, ok := t.Underlying().(*types.Pointer); ok {
				t = p.Elem()
			}
			_, v := fieldPath(t, pkg, n.Name)
			if v != nil {
				return v.Type()
			}
		case *EIndex:
			t := typeOf(n.X)
			if t != nil {
				if mt, ok := t.Underlying().(*types.Map); ok {
					return mt.Elem()
				}
				return elemTypeOf(t)
			}
		case *EUn:
			if n.Op == "*" {
				if t := typeOf(n.X); t != nil {
					return deref(t)
				}
			}
		}
		return nil
	}
	sel, ok := it.Expr.(*ESel)
	if !ok {
		if t := typeOf(it.Expr); t != nil {
			if p, ok := t.Underlying().(*types.Pointer); ok {
				eng.cellHeaps(p.Elem(), out)
				return
			}
		}
		out["*"] = true
		return
	}
	if sel.Ghost {
		if g := eng.cs.Ghosts[sel.Name]; g != nil {
			out["Gh."+g.Owner+"."+g.Name] = true
			return
		}
		out["*"] = true
		return
	}
	bt := typeOf(sel.X)
	if bt == nil {
		out["*"] = true
		return
	}
	switch sel.Name {
	case "ALLFIELDS":
		if p, ok := bt.Underlying().(*types.Pointer); ok {
			bt = p.Elem()
		}
		eng.structLeafHeaps(bt, out)
	case "ALLELEMS":
		switch u := bt.Underlying().(type) {
		case *types.Slice:
			eng.elemHeaps(u.Elem(), out)
		case *types.Map:
			eng.mapHeapsEff(u, out, true)
		default:
			out["*"] = true
		}
	default:
		if p, ok := bt.Underlying().(*types.Pointer); ok {
			bt = p.Elem()
		}
		path, _ := fieldPath(bt, pkg, sel.Name)
		if path == nil {
			out["*"] = true
			return
		}
		cur := bt
		for k, i := range path {
			st := cur.Underlying().(*types.Struct)
			ft := st.Field(i).Type()
			if k == len(path)-1 {
				if _, isSt := isStruct(ft); isSt {
					eng.structLeafHeaps(ft, out)
				} else {
					out[fieldHeapName(cur, i)] = true
					eng.noteHeap(fieldHeapName(cur, i), "field", ft, nil)
				}
			}
			cur = ft
		}
	}
}

// sortNameOfKey: SMT sort name of a map key type (scalar keys only).
func sortNameOfKey(t types.Type) string {
	switch u := t.Underlying().(type) {
	case *types.Basic:
		if u.Info()&types.IsBoolean != 0 {
			return "Bool"
		}
		if u.Info()&types.IsFloat != 0 {
			return "Real"
		}
		return "Int"
	case *types.Interface:
		return "Iface"
	case *types.Slice:
		return "Slice"
	case *types.Struct:
		return "S." + structKey(t)
	}
	return "Int"
}

// callbackEffects: heap-level effects declared by a callback contract.
func (eng *Engine) callbackEffects(ct *Contract, p *ssa.Parameter) map[string]bool {
	out := map[string]bool{}
	if !ct.HasMod {
		out["*"] = true
		return out
	}
	if ct.Pure {
		return out
	}
	fn := p.Parent()
	pkg := fn.Pkg.Pkg
	var names []string
	var ts []types.Type
	for _, q := range fn.Params {
		names = append(names, q.Name())
		ts = append(ts, q.Type())
	}
	for _, it := range ct.Modifies {
		switch {
		case it.All:
			out["*"] = true
		case it.Heap != "":
			out[it.Heap] = true
		default:
			eng.modItemHeaps(it, names, ts, pkg, out)
		}
	}
	return out
}
