package main

import (
	"crypto/sha256"
	"encoding/hex"
	"bufio"
	"bytes"
	"context"
	"fmt"
	"os"
	"os/exec"
	"path/filepath"
	"regexp"
	"sort"
	"strings"
	"time"
)

type solverSpec struct {
	name string
	argv func(file string, timeoutMs int) []string
}

var solvers = []solverSpec{
	{"z3-new", func(f string, t int) []string { return []string{"z3-new", "-smt2", fmt.Sprintf("-t:%d", t), f} }},
	// z3 4.8.12 is not used: on one query (a seeded change, handleSequenceReset) it answered "unsat" where z3 5.1.0 and
	// cvc5 do not and the real code has a counterexample; its answers are not trusted here (DESIGN.md section 7)
	{"cvc5", func(f string, t int) []string {
		return []string{"cvc5", "--incremental", fmt.Sprintf("--tlimit-per=%d", t), "--lang=smt2", f}
	}},
}

// runSolver runs one solver over a query file and returns status per obligation index.
func runSolver(s solverSpec, file string, timeoutMs int, nObl int) (map[int]string, float64, string) {
	start := time.Now()
	ctx, cancel := context.WithTimeout(context.Background(), time.Duration(timeoutMs*(nObl+2))*time.Millisecond+20*time.Second)
	defer cancel()
	argv := s.argv(file, timeoutMs)
	cmd := exec.CommandContext(ctx, argv[0], argv[1:]...)
	var out bytes.Buffer
	cmd.Stdout = &out
	cmd.Stderr = &out
	_ = cmd.Run()
	res := map[int]string{}
	cur := -1
	var diag []string
	sc := bufio.NewScanner(&out)
	sc.Buffer(make([]byte, 1<<20), 1<<24)
	for sc.Scan() {
		l := strings.TrimSpace(sc.Text())
		l = strings.Trim(l, "\"")
		switch {
		case strings.HasPrefix(l, "OBL "):
			fmt.Sscanf(l, "OBL %d", &cur)
		case l == "sat" || l == "unsat" || l == "unknown" || l == "timeout":
			if cur >= 0 {
				if _, seen := res[cur]; !seen {
					res[cur] = l
				}
			}
		case strings.HasPrefix(l, "(error"):
			diag = append(diag, l)
			if cur >= 0 {
				if _, seen := res[cur]; !seen {
					res[cur] = "error"
				}
			}
		}
	}
	return res, time.Since(start).Seconds(), strings.Join(diag, "\n")
}

var constDef = regexp.MustCompile(`(?m)^\(declare-const (\S+) (.+)\)\n\(assert \((=|=>) (\S+) (.*)\)\)$`)

// macroRendering turns "constant with defining equation" pairs back into define-fun macros.
func macroRendering(txt string) string {
	return constDef.ReplaceAllStringFunc(txt, func(m string) string {
		g := constDef.FindStringSubmatch(m)
		if g[1] != g[4] {
			return m
		}
		return fmt.Sprintf("(define-fun %s () %s %s)", g[1], g[2], g[5])
	})
}

var noIncremental = true

// solverSlots bounds the number of obligations being solved at any time (each may start up to three processes)
var solverSlots = make(chan struct{}, 16)

// quickTry: the first back end alone with a short budget.
func quickTry(file string, ms int) (string, string) {
	argv := solvers[0].argv(file, ms)
	out, _ := exec.Command(argv[0], argv[1:]...).CombinedOutput()
	for _, l := range strings.Split(string(out), "\n") {
		l = strings.TrimSpace(l)
		if strings.HasPrefix(l, "(error") {
			// a malformed query decides nothing (the solver would go on without the offending line)
			return "error", solvers[0].name
		}
		if l == "sat" || l == "unsat" {
			return l, solvers[0].name
		}
		if l == "unknown" || l == "timeout" {
			break
		}
	}
	return "unknown", solvers[0].name
}

// raceSolvers runs all back ends on one query file concurrently and returns the first definite answer.
func raceSolvers(file string, timeoutMs int) (string, string) {
	type r struct{ st, by string }
	ctx, cancel := context.WithTimeout(context.Background(), time.Duration(timeoutMs)*time.Millisecond+15*time.Second)
	defer cancel()
	// stage 1: the first back end alone (it decides the large majority within milliseconds)
	if len(solvers) > 1 {
		t1 := timeoutMs
		if t1 > 2500 {
			t1 = 2500
		}
		argv := solvers[0].argv(file, t1)
		out, _ := exec.CommandContext(ctx, argv[0], argv[1:]...).CombinedOutput()
		for _, l := range strings.Split(string(out), "\n") {
			l = strings.TrimSpace(l)
			if strings.HasPrefix(l, "(error") {
				return "error", solvers[0].name
			}
			if l == "sat" || l == "unsat" {
				return l, solvers[0].name
			}
			if l == "unknown" || l == "timeout" {
				break
			}
		}
	}
	rest := solvers
	if len(solvers) > 1 {
		rest = append([]solverSpec{}, solvers...)
		// the macro rendering of the same query (define-fun instead of constants with equations) suits some goals better
		if txt, err := os.ReadFile(file); err == nil {
			mf := file + ".macro.smt2"
			if os.WriteFile(mf, []byte(macroRendering(string(txt))), 0o644) == nil {
				defer os.Remove(mf)
				s0 := solvers[0]
				rest = append([]solverSpec{{s0.name + "/macro", func(_ string, t int) []string { return s0.argv(mf, t) }}}, rest...)
			}
		}
	}
	ch := make(chan r, len(rest))
	for _, s := range rest {
		go func(s solverSpec) {
			argv := s.argv(file, timeoutMs)
			cmd := exec.CommandContext(ctx, argv[0], argv[1:]...)
			out, _ := cmd.CombinedOutput()
			st := "unknown"
			for _, l := range strings.Split(string(out), "\n") {
				l = strings.TrimSpace(l)
				if strings.HasPrefix(l, "(error") {
					st = "error"
					break
				}
				if l == "sat" || l == "unsat" || l == "unknown" || l == "timeout" {
					st = l
					break
				}
			}
			ch <- r{st, s.name}
		}(s)
	}
	last := r{"unknown", solvers[0].name}
	for range rest {
		a := <-ch
		if a.st == "unsat" || a.st == "sat" {
			return a.st, a.by
		}
		last = a
	}
	return last.st, last.by
}

// discharge decides all obligations of a VC. Results are written into the obligations.
func (eng *Engine) discharge(vc *VC, workDir string, timeoutMs int, thorough bool) (string, float64, error) {
	os.MkdirAll(workDir, 0o755)
	nm := funcDisplay(vc.top)
	if vc.top == nil {
		nm = "lemma." + vc.lemmaName
	}
	base := filepath.Join(workDir, sanitize(nm))
	file := base + ".smt2"
	// trivial obligations need no solver
	pending := map[int]bool{}
	for i, o := range vc.obls {
		switch {
		case !o.Cover && o.Cond == "true":
			o.Status, o.Solver = "unsat", "trivial"
			if o.Assumed {
				o.Solver = "assumed (undecided clause)"
			}
		case !o.Cover && o.Guard == "false":
			o.Status, o.Solver = "unsat", "trivial"
		case vc.retryOnly && (o.Cover || o.Status == "unsat"):
			// second pass: only what the first pass left open
		default:
			pending[i] = true
		}
	}
	total := 0.0
	if err := os.WriteFile(file, []byte(vc.smtText(nil)), 0o644); err != nil {
		return file, 0, err
	}
	// covers (vacuity guards): a short query; only a definite unsat counts as vacuous
	covers := map[int]bool{}
	for i := range pending {
		if vc.obls[i].Cover {
			covers[i] = true
			delete(pending, i)
		}
	}
	if len(covers) > 0 {
		cf := base + ".covers.smt2"
		if err := os.WriteFile(cf, []byte(vc.smtText(covers)), 0o644); err != nil {
			return file, 0, err
		}
		res, secs, _ := runSolver(solvers[0], cf, 300, len(covers))
		total += secs
		for i := range covers {
			o := vc.obls[i]
			o.Solver = solvers[0].name
			switch res[i] {
			case "unsat":
				// confirm in a fresh process: incremental mode is not trusted for this verdict
				qf := fmt.Sprintf("%s.cover%d.smt2", base, i)
				os.WriteFile(qf, []byte(vc.smtSingle(i)), 0o644)
				st, _ := raceSolvers(qf, 3000)
				os.Remove(qf)
				if st == "unsat" {
					o.Status = "vacuous"
				} else {
					o.Status = "not-refuted"
				}
			case "sat":
				o.Status = "sat"
			default:
				o.Status = "not-refuted"
			}
		}
		os.Remove(cf)
	}
	// pass 1: first solver, incremental (one process, push/pop per obligation): cheap for the easy majority
	if len(pending) > 0 && !noIncremental {
		s0 := solvers[0]
		qf := fmt.Sprintf("%s.%s.smt2", base, s0.name)
		if err := os.WriteFile(qf, []byte(vc.smtText(pending)), 0o644); err != nil {
			return file, total, err
		}
		t1 := timeoutMs
		if t1 > 2000 {
			t1 = 2000
		}
		res, secs, diag := runSolver(s0, qf, t1, len(pending))
		total += secs
		for i := range pending {
			o := vc.obls[i]
			st := res[i]
			if st == "" {
				st = "unknown"
			}
			if st == "error" && diag != "" {
				o.Model = diag
			}
			o.Status, o.Solver = st, s0.name
			if st == "unsat" || st == "sat" {
				delete(pending, i)
			}
		}
		os.Remove(qf)
	}
	// pass 2: every remaining obligation in fresh solver processes (incremental mode weakens the solvers'
	// strategies), all back ends racing; the first definite answer wins
	if len(pending) > 0 {
		var idxs []int
		for i := range pending {
			idxs = append(idxs, i)
		}
		sort.Ints(idxs)
		type ans struct {
			i      int
			st, by string
			secs   float64
		}
		ch := make(chan ans, len(idxs))
		// query texts are rendered sequentially (the VC is not safe for concurrent use)
		lights := map[int]string{}
		singles := map[int]string{}
		paths := map[int][]string{}
		lightPaths := map[int][]string{}
		focused := map[int]string{}
		for _, i := range idxs {
			if !vc.obls[i].Cover {
				focused[i] = vc.smtFocused(i)
			}
			lights[i] = vc.smtLight(i)
			singles[i] = vc.smtSingle(i)
			for k := range vc.obls[i].Paths {
				paths[i] = append(paths[i], vc.smtPath(i, k))
				lightPaths[i] = append(lightPaths[i], vc.smtLightPath(i, k))
			}
		}
		cacheDir := filepath.Join(filepath.Dir(workDir), "cache")
		os.MkdirAll(cacheDir, 0o755)
		keyOf := func(i int) string {
			h := sha256.Sum256([]byte(singles[i]))
			return filepath.Join(cacheDir, hex.EncodeToString(h[:16]))
		}
		for _, i := range idxs {
			go func(i int) {
				// answers for byte-identical queries are reused (the query is regenerated from /repo on every run; only the
				// solver's "unsat" for exactly this text is remembered; the cache lives under work/ and starts empty)
				ck := keyOf(i)
				if os.Getenv("GVC_NOCACHE") == "" {
					if b, err := os.ReadFile(ck); err == nil && strings.HasPrefix(string(b), "unsat") {
						if os.Getenv("GVC_DEBUGCACHE") != "" {
							fmt.Fprintf(os.Stderr, "cache hit %s for %s: %s", ck, vc.obls[i].Name, string(b))
						}
						ch <- ans{i, "unsat", strings.TrimSpace(strings.TrimPrefix(string(b), "unsat")) + "/cached", 0}
						return
					}
				}
				solverSlots <- struct{}{}
				defer func() { <-solverSlots }()
				start := time.Now()
				qf := fmt.Sprintf("%s.obl%d.smt2", base, i)
				defer os.Remove(qf)
				// light attempt: quantified hypotheses dropped (only "unsat" is meaningful)
				if o := vc.obls[i]; !strings.Contains(o.Cond, "(forall") && !strings.Contains(o.Cond, "(exists") {
					os.WriteFile(qf, []byte(lights[i]), 0o644)
					argv := solvers[0].argv(qf, 1500)
					out, _ := exec.Command(argv[0], argv[1:]...).CombinedOutput()
					if strings.HasPrefix(strings.TrimSpace(string(out)), "unsat") {
						ch <- ans{i, "unsat", solvers[0].name + "/light", time.Since(start).Seconds()}
						return
					}
				}
				if ftxt := focused[i]; ftxt != "" {
					// frame goals: only the hypotheses about the heap in question (and allocation)
					os.WriteFile(qf, []byte(ftxt), 0o644)
					ft := timeoutMs / 2
					if k := vc.obls[i].Kind; k != "frame" && k != "framestep" {
						ft = timeoutMs / 4
					}
					if fst, fby := raceSolvers(qf, ft); fst == "unsat" {
						ch <- ans{i, "unsat", fby + "/focused", time.Since(start).Seconds()}
						return
					}
				}
				os.WriteFile(qf, []byte(singles[i]), 0o644)
				st, by := quickTry(qf, 2500)
				trySplit := func() {
					// case split over the covering paths: discharged iff every path is
					all := true
					quantGoal := strings.Contains(vc.obls[i].Cond, "(forall") || strings.Contains(vc.obls[i].Cond, "(exists")
					for pk, ptxt := range paths[i] {
						if !quantGoal {
							os.WriteFile(qf, []byte(lightPaths[i][pk]), 0o644)
							argv := solvers[0].argv(qf, 1500)
							out, _ := exec.Command(argv[0], argv[1:]...).CombinedOutput()
							if strings.HasPrefix(strings.TrimSpace(string(out)), "unsat") {
								continue
							}
						}
						os.WriteFile(qf, []byte(ptxt), 0o644)
						pst, _ := raceSolvers(qf, timeoutMs)
						if pst != "unsat" {
							all = false
							if os.Getenv("GVC_DEBUG") != "" {
								fmt.Fprintf(os.Stderr, "path-split: %s fails on path %d/%d: %s\n   %s\n", vc.obls[i].Name, pk+1, len(paths[i]), pst, vc.obls[i].Paths[pk])
								if d := os.Getenv("GVC_KEEPFAIL"); d != "" {
									os.WriteFile(d, []byte(ptxt), 0o644)
								}
							}
							break
						}
					}
					if all {
						st, by = "unsat", "split/"+fmt.Sprint(len(paths[i]))+"paths"
					}
				}
				decided := func() bool { return st == "unsat" || st == "sat" }
				if !decided() && len(paths[i]) > 0 && len(paths[i]) <= 8 {
					trySplit() // few paths: each is much cheaper than the merged query
				}
				if !decided() {
					os.WriteFile(qf, []byte(singles[i]), 0o644)
					st, by = raceSolvers(qf, timeoutMs)
				}
				if !decided() && len(paths[i]) > 8 {
					trySplit()
				}
				ch <- ans{i, st, by, time.Since(start).Seconds()}
			}(i)
		}
		for range idxs {
			a := <-ch
			total += a.secs
			o := vc.obls[a.i]
			o.Time = a.secs
			if a.st == "unsat" && !strings.HasSuffix(a.by, "/cached") {
				os.WriteFile(keyOf(a.i), []byte("unsat "+a.by+"\n"), 0o644)
			}
			if a.st == "unsat" || a.st == "sat" {
				o.Status, o.Solver = a.st, a.by
				delete(pending, a.i)
			} else if a.st != "" {
				o.Status, o.Solver = a.st, a.by
			}
		}
	}
	for i := range pending {
		o := vc.obls[i]
		if o.Status == "" {
			o.Status = "unknown"
		}
	}
	return file, total, nil
}
