package main

import (
	"bufio"
	"bytes"
	"context"
	"fmt"
	"os"
	"os/exec"
	"path/filepath"
	"strings"
	"time"
)

type solverSpec struct {
	name string
	argv func(file string, timeoutMs int) []string
}

var solvers = []solverSpec{
	{"z3-new", func(f string, t int) []string { return []string{"z3-new", "-smt2", fmt.Sprintf("-t:%d", t), f} }},
	{"z3", func(f string, t int) []string { return []string{"z3", "-smt2", fmt.Sprintf("-t:%d", t), f} }},
	{"cvc5", func(f string, t int) []string {
		return []string{"cvc5", "--incremental", fmt.Sprintf("--tlimit-per=%d", t), "--lang=smt2", f}
	}},
}

// runSolver runs one solver over a query file and returns status per obligation index.
func runSolver(s solverSpec, file string, timeoutMs int, nObl int) (map[int]string, float64, string) {
	start := time.Now()
	ctx, cancel := context.WithTimeout(context.Background(), time.Duration(timeoutMs*(nObl+2))*time.Millisecond+20*time.Second)
	defer cancel()
	argv := s.argv(file, timeoutMs)
	cmd := exec.CommandContext(ctx, argv[0], argv[1:]...)
	var out bytes.Buffer
	cmd.Stdout = &out
	cmd.Stderr = &out
	_ = cmd.Run()
	res := map[int]string{}
	cur := -1
	var diag []string
	sc := bufio.NewScanner(&out)
	sc.Buffer(make([]byte, 1<<20), 1<<24)
	for sc.Scan() {
		l := strings.TrimSpace(sc.Text())
		l = strings.Trim(l, "\"")
		switch {
		case strings.HasPrefix(l, "OBL "):
			fmt.Sscanf(l, "OBL %d", &cur)
		case l == "sat" || l == "unsat" || l == "unknown" || l == "timeout":
			if cur >= 0 {
				if _, seen := res[cur]; !seen {
					res[cur] = l
				}
			}
		case strings.HasPrefix(l, "(error"):
			diag = append(diag, l)
			if cur >= 0 {
				if _, seen := res[cur]; !seen {
					res[cur] = "error"
				}
			}
		}
	}
	return res, time.Since(start).Seconds(), strings.Join(diag, "\n")
}

// discharge decides all obligations of a VC. Results are written into the obligations.
func (eng *Engine) discharge(vc *VC, workDir string, timeoutMs int, thorough bool) (string, float64, error) {
	os.MkdirAll(workDir, 0o755)
	nm := funcDisplay(vc.top)
	if vc.top == nil {
		nm = "lemma." + vc.lemmaName
	}
	base := filepath.Join(workDir, sanitize(nm))
	file := base + ".smt2"
	// trivial obligations need no solver
	pending := map[int]bool{}
	for i, o := range vc.obls {
		switch {
		case !o.Cover && o.Cond == "true":
			o.Status, o.Solver = "unsat", "trivial"
		case !o.Cover && o.Guard == "false":
			o.Status, o.Solver = "unsat", "trivial"
		default:
			pending[i] = true
		}
	}
	total := 0.0
	if err := os.WriteFile(file, []byte(vc.smtText(nil)), 0o644); err != nil {
		return file, 0, err
	}
	// covers (vacuity guards): a short query; only a definite unsat counts as vacuous
	covers := map[int]bool{}
	for i := range pending {
		if vc.obls[i].Cover {
			covers[i] = true
			delete(pending, i)
		}
	}
	if len(covers) > 0 {
		cf := base + ".covers.smt2"
		if err := os.WriteFile(cf, []byte(vc.smtText(covers)), 0o644); err != nil {
			return file, 0, err
		}
		res, secs, _ := runSolver(solvers[0], cf, 300, len(covers))
		total += secs
		for i := range covers {
			o := vc.obls[i]
			o.Solver = solvers[0].name
			switch res[i] {
			case "unsat":
				o.Status = "vacuous"
			case "sat":
				o.Status = "sat"
			default:
				o.Status = "not-refuted"
			}
		}
		os.Remove(cf)
	}
	for si, s := range solvers {
		if len(pending) == 0 {
			break
		}
		qf := fmt.Sprintf("%s.%s.smt2", base, s.name)
		if err := os.WriteFile(qf, []byte(vc.smtText(pending)), 0o644); err != nil {
			return file, total, err
		}
		res, secs, diag := runSolver(s, qf, timeoutMs, len(pending))
		total += secs
		for i := range pending {
			o := vc.obls[i]
			st := res[i]
			if st == "" {
				st = "unknown"
			}
			decided := false
			if o.Cover {
				// cover: sat means reachable (good); unsat means vacuous
				if st == "sat" || st == "unsat" {
					decided = true
				}
			} else if st == "unsat" || st == "sat" {
				decided = true
			}
			if st == "error" && diag != "" && si == 0 {
				o.Model = diag
			}
			if decided {
				o.Status, o.Solver = st, s.name
				delete(pending, i)
			} else if o.Status == "" || o.Status == "unknown" {
				o.Status, o.Solver = st, s.name
			}
		}
		if qf != file {
			os.Remove(qf)
		}
	}
	for i := range pending {
		o := vc.obls[i]
		if o.Status == "" {
			o.Status = "unknown"
		}
	}
	return file, total, nil
}
