package main

import (
	"fmt"
	"go/constant"
	"go/types"
	"math/big"
	"strings"
)

// ---- SMT helpers -----------------------------------------------------------

func sx(op string, args ...string) string {
	return "(" + op + " " + strings.Join(args, " ") + ")"
}

func and(args ...string) string {
	var a []string
	for _, x := range args {
		if x == "true" || x == "" {
			continue
		}
		if x == "false" {
			return "false"
		}
		a = append(a, x)
	}
	switch len(a) {
	case 0:
		return "true"
	case 1:
		return a[0]
	}
	return sx("and", a...)
}

func or(args ...string) string {
	var a []string
	for _, x := range args {
		if x == "false" || x == "" {
			continue
		}
		if x == "true" {
			return "true"
		}
		a = append(a, x)
	}
	switch len(a) {
	case 0:
		return "false"
	case 1:
		return a[0]
	}
	return sx("or", a...)
}

func not(x string) string {
	switch x {
	case "true":
		return "false"
	case "false":
		return "true"
	}
	return sx("not", x)
}

func implies(a, b string) string {
	if a == "true" {
		return b
	}
	if b == "true" {
		return "true"
	}
	return sx("=>", a, b)
}

func ite(c, a, b string) string {
	if c == "true" {
		return a
	}
	if c == "false" {
		return b
	}
	if a == b {
		return a
	}
	return sx("ite", c, a, b)
}

func eq(a, b string) string {
	if a == b {
		return "true"
	}
	return sx("=", a, b)
}

func num(n int64) string {
	if n < 0 {
		return fmt.Sprintf("(- %d)", -n)
	}
	return fmt.Sprintf("%d", n)
}

func bigNum(b *big.Int) string {
	if b.Sign() < 0 {
		return "(- " + new(big.Int).Neg(b).String() + ")"
	}
	return b.String()
}

func sanitize(s string) string {
	var sb strings.Builder
	for _, c := range s {
		switch {
		case c >= 'a' && c <= 'z', c >= 'A' && c <= 'Z', c >= '0' && c <= '9', c == '_', c == '.':
			sb.WriteRune(c)
		case c == '*':
			sb.WriteString("ptr.")
		case c == '[':
			sb.WriteString("sl")
		case c == ']':
			sb.WriteString(".")
		case c == '/':
			sb.WriteString("_")
		case c == '$':
			sb.WriteString("_c")
		default:
			sb.WriteString("_")
		}
	}
	return sb.String()
}

// ---- type keys and sorts ---------------------------------------------------

func pkgQualifier(p *types.Package) string { return p.Name() }

func typeKey(t types.Type) string {
	k := sanitize(types.TypeString(t, pkgQualifier))
	switch k {
	case "byte":
		return "uint8"
	case "rune":
		return "int32"
	case "sl.byte":
		return "sl.uint8"
	}
	return k
}

// structKey names a struct type: named types by their name, anonymous structs by their string.
func structKey(t types.Type) string {
	if n, ok := t.(*types.Named); ok {
		return typeKey(n)
	}
	if a, ok := t.(*types.Alias); ok {
		return structKey(types.Unalias(a))
	}
	return typeKey(t)
}

func isStruct(t types.Type) (*types.Struct, bool) {
	s, ok := t.Underlying().(*types.Struct)
	return s, ok
}

func deref(t types.Type) types.Type {
	if p, ok := t.Underlying().(*types.Pointer); ok {
		return p.Elem()
	}
	return nil
}

type intInfo struct {
	signed bool
	bits   int
}

func intInfoOf(t types.Type) (intInfo, bool) {
	b, ok := t.Underlying().(*types.Basic)
	if !ok {
		return intInfo{}, false
	}
	switch b.Kind() {
	case types.Int, types.Int64:
		return intInfo{true, 64}, true
	case types.Int32:
		return intInfo{true, 32}, true
	case types.Int16:
		return intInfo{true, 16}, true
	case types.Int8:
		return intInfo{true, 8}, true
	case types.Uint, types.Uint64, types.Uintptr:
		return intInfo{false, 64}, true
	case types.Uint32:
		return intInfo{false, 32}, true
	case types.Uint16:
		return intInfo{false, 16}, true
	case types.Uint8:
		return intInfo{false, 8}, true
	case types.UntypedInt, types.UntypedRune:
		return intInfo{true, 64}, true
	}
	return intInfo{}, false
}

func (ii intInfo) min() *big.Int {
	if !ii.signed {
		return big.NewInt(0)
	}
	return new(big.Int).Neg(new(big.Int).Lsh(big.NewInt(1), uint(ii.bits-1)))
}
func (ii intInfo) max() *big.Int {
	if !ii.signed {
		return new(big.Int).Sub(new(big.Int).Lsh(big.NewInt(1), uint(ii.bits)), big.NewInt(1))
	}
	return new(big.Int).Sub(new(big.Int).Lsh(big.NewInt(1), uint(ii.bits-1)), big.NewInt(1))
}
func (ii intInfo) wrapFn() string {
	if ii.signed {
		return fmt.Sprintf("wrap_s%d", ii.bits)
	}
	return fmt.Sprintf("wrap_u%d", ii.bits)
}

func isString(t types.Type) bool {
	b, ok := t.Underlying().(*types.Basic)
	return ok && (b.Kind() == types.String || b.Kind() == types.UntypedString)
}
func isBool(t types.Type) bool {
	b, ok := t.Underlying().(*types.Basic)
	return ok && (b.Kind() == types.Bool || b.Kind() == types.UntypedBool)
}
func isFloat(t types.Type) bool {
	b, ok := t.Underlying().(*types.Basic)
	return ok && (b.Kind() == types.Float64 || b.Kind() == types.Float32 || b.Kind() == types.UntypedFloat)
}
func isRefLike(t types.Type) bool {
	switch t.Underlying().(type) {
	case *types.Pointer, *types.Map, *types.Chan, *types.Signature:
		return true
	}
	if b, ok := t.Underlying().(*types.Basic); ok && b.Kind() == types.UnsafePointer {
		return true
	}
	return false
}

const preludeBase = `
(set-option :produce-models true)
(set-logic ALL)
(declare-datatypes ((Slice 0)) (((mk-slice (s-arr Int) (s-off Int) (s-len Int) (s-cap Int)))))
(declare-datatypes ((Iface 0)) (((mk-iface (i-tag Int) (i-val Int)))))
(define-fun wf-slice ((s Slice)) Bool (and (>= (s-off s) 0) (>= (s-len s) 0) (<= (s-len s) (s-cap s)) (<= (+ (s-off s) (s-cap s)) 281474976710656) (=> (= (s-arr s) 0) (= (s-cap s) 0)) (>= (s-arr s) 0)))
(define-fun nil-slice () Slice (mk-slice 0 0 0 0))
(define-fun nil-iface () Iface (mk-iface 0 0))
(define-fun wrap_s64 ((x Int)) Int (ite (and (<= (- 9223372036854775808) x) (<= x 9223372036854775807)) x (- (mod (+ x 9223372036854775808) 18446744073709551616) 9223372036854775808)))
(define-fun wrap_s32 ((x Int)) Int (ite (and (<= (- 2147483648) x) (<= x 2147483647)) x (- (mod (+ x 2147483648) 4294967296) 2147483648)))
(define-fun wrap_s16 ((x Int)) Int (ite (and (<= (- 32768) x) (<= x 32767)) x (- (mod (+ x 32768) 65536) 32768)))
(define-fun wrap_s8 ((x Int)) Int (ite (and (<= (- 128) x) (<= x 127)) x (- (mod (+ x 128) 256) 128)))
(define-fun wrap_u64 ((x Int)) Int (ite (and (<= 0 x) (<= x 18446744073709551615)) x (mod x 18446744073709551616)))
(define-fun wrap_u32 ((x Int)) Int (ite (and (<= 0 x) (<= x 4294967295)) x (mod x 4294967296)))
(define-fun wrap_u16 ((x Int)) Int (ite (and (<= 0 x) (<= x 65535)) x (mod x 65536)))
(define-fun wrap_u8 ((x Int)) Int (ite (and (<= 0 x) (<= x 255)) x (mod x 256)))
(define-fun godiv ((x Int) (y Int)) Int (ite (or (>= x 0) (= (mod x y) 0)) (div x y) (ite (> y 0) (+ (div x y) 1) (- (div x y) 1))))
(define-fun gorem ((x Int) (y Int)) Int (- x (* y (godiv x y))))
(define-fun imin ((x Int) (y Int)) Int (ite (<= x y) x y))
(define-fun imax ((x Int) (y Int)) Int (ite (>= x y) x y))
(declare-fun root (Int) Int)
(declare-fun rkind (Int) Int)
(declare-fun slen (Int) Int)
(declare-fun sat (Int Int) Int)
(declare-fun bitand (Int Int) Int)
(declare-fun bitor (Int Int) Int)
(declare-fun bitxor (Int Int) Int)
(declare-fun shl (Int Int) Int)
(declare-fun shr (Int Int) Int)
(declare-fun strconcat (Int Int) Int)
`

const preludeQuant = `
(assert (forall ((s Int)) (! (>= (slen s) 0) :pattern ((slen s)))))
(assert (forall ((s Int) (i Int)) (! (and (<= 0 (sat s i)) (<= (sat s i) 255)) :pattern ((sat s i)))))
(assert (forall ((a Int) (b Int)) (! (= (slen (strconcat a b)) (+ (slen a) (slen b))) :pattern ((strconcat a b)))))
`

// constTerm renders a go/constant value of the given type.
func constInt(v constant.Value) (string, bool) {
	if v == nil {
		return "", false
	}
	switch v.Kind() {
	case constant.Int:
		if i, ok := constant.Int64Val(v); ok {
			return num(i), true
		}
		if u, ok := constant.Uint64Val(v); ok {
			return fmt.Sprintf("%d", u), true
		}
		b, ok := new(big.Int).SetString(v.ExactString(), 10)
		if ok {
			return bigNum(b), true
		}
	}
	return "", false
}
