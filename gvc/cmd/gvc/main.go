package main

import (
	"flag"
	"fmt"
	"go/types"
	"os"
	"path/filepath"
	"sort"
	"strings"
	"time"

	"golang.org/x/tools/go/ssa"
)

func usage() {
	fmt.Fprintln(os.Stderr, `usage:
  gvc check --property Cnn [--tier quick|thorough]
  gvc verify --func pkg.key [--dump] [--timeout ms]
  gvc list
  gvc baseline --property Cnn | --all
  gvc selftest [--only name]`)
	os.Exit(2)
}

func main() {
	if len(os.Args) < 2 {
		usage()
	}
	cmd := os.Args[1]
	fs := flag.NewFlagSet(cmd, flag.ExitOnError)
	prop := fs.String("property", "", "property id")
	tier := fs.String("tier", os.Getenv("VERIF_TIER"), "quick or thorough")
	fnName := fs.String("func", "", "function display name (pkg.key)")
	dump := fs.Bool("dump", false, "print SMT")
	timeout := fs.Int("timeout", 0, "per-obligation timeout (ms)")
	repo := fs.String("repo", "/repo", "repository under verification")
	verif := fs.String("verif", "/verif", "verification directory")
	all := fs.Bool("all", false, "all properties")
	only := fs.String("only", "", "selftest: only this mutant")
	verbose := fs.Bool("v", false, "verbose")
	fast := fs.Bool("fast", false, "development: first solver only")
	fresh := fs.Bool("fresh", false, "every obligation in its own solver process (no incremental pass)")
	fs.Parse(os.Args[2:])
	if *fast {
		solvers = solvers[:1]
	}
	_ = fresh
	if *tier == "" {
		*tier = "quick"
	}
	switch cmd {
	case "verify":
		eng := mustLoad(*repo, *verif)
		os.Exit(cmdVerify(eng, *fnName, *dump, *timeout, *verbose))
	case "list":
		eng := mustLoad(*repo, *verif)
		cmdList(eng)
	case "check":
		os.Exit(cmdCheck(*repo, *verif, *prop, *tier, *timeout, *verbose))
	case "baseline":
		os.Exit(cmdBaseline(*repo, *verif, *prop, *all, *timeout))
	case "selftest":
		os.Exit(cmdSelftest(*verif, *only, *verbose))
	default:
		usage()
	}
}

func mustLoad(repo, verif string) *Engine {
	eng, err := LoadEngine(repo, verif)
	if err != nil {
		fmt.Fprintln(os.Stderr, "load error:", err)
		os.Exit(3)
	}
	if len(eng.cs.Errors) > 0 {
		for _, e := range eng.cs.Errors {
			fmt.Fprintln(os.Stderr, "contract error:", e)
		}
	}
	return eng
}

// targets returns the functions under contract (with a body in the module), sorted.
type target struct {
	fn *ssa.Function
	ct *Contract
	lm *Lemma
}

func (t target) display() string {
	if t.lm != nil {
		return "lemma." + t.lm.Name
	}
	return funcDisplay(t.fn)
}

func (t target) props() []string {
	if t.lm != nil {
		return t.lm.Props
	}
	return t.ct.Props
}

func (eng *Engine) build(t target) (*VC, error) {
	if t.lm != nil {
		return eng.lemmaVC(t.lm)
	}
	return eng.buildVC(t.fn, t.ct)
}

func (eng *Engine) targets() []target {
	var out []target
	for k, ct := range eng.cs.Contracts {
		if ct.Kind != "func" && ct.Kind != "closure" {
			continue
		}
		fn := eng.funcsByKey[k]
		if fn == nil || len(fn.Blocks) == 0 {
			continue
		}
		if ct.Trusted {
			continue
		}
		out = append(out, target{fn: fn, ct: ct})
	}
	out = eng.closedWorldTargets(out)
	for _, lm := range eng.cs.Lemmas {
		if !lm.Axiom {
			out = append(out, target{lm: lm})
		}
	}
	sort.Slice(out, func(i, j int) bool { return out[i].display() < out[j].display() })
	return out
}

func (eng *Engine) staleContracts() []string {
	var out []string
	for k, ct := range eng.cs.Contracts {
		if ct.Kind == "func" || ct.Kind == "closure" {
			if eng.funcsByKey[k] == nil {
				out = append(out, k)
			}
		}
	}
	sort.Strings(out)
	return out
}

func cmdList(eng *Engine) {
	for _, t := range eng.targets() {
		if t.lm != nil {
			fmt.Printf("%-60s %v lemma\n", t.display(), t.props())
			continue
		}
		fmt.Printf("%-60s %v requires=%d ensures=%d loops=%d\n", funcDisplay(t.fn), t.ct.Props, len(t.ct.Requires), len(t.ct.Ensures), len(t.ct.Loops))
	}
	for _, s := range eng.staleContracts() {
		fmt.Println("STALE:", s)
	}
}

func (eng *Engine) verifyOne(t target, workDir string, timeoutMs int, thorough bool) *FuncResult {
	start := time.Now()
	fr := eng.newFuncResult(t)
	vc, err := eng.build(t)
	fr.GenTime = time.Since(start).Seconds()
	if err != nil {
		fr.Err = err.Error()
		return fr
	}
	file, secs, err := eng.discharge(vc, workDir, timeoutMs, thorough)
	fr.SMTFile = file
	fr.SolveTime = secs
	if err != nil {
		fr.Err = err.Error()
	}
	fr.Obls = vc.obls
	for a := range vc.assumed {
		fr.Assumed = append(fr.Assumed, a)
	}
	sort.Strings(fr.Assumed)
	fr.Notes = vc.notes
	return fr
}

func (eng *Engine) newFuncResult(t target) *FuncResult {
	if t.lm != nil {
		return &FuncResult{Fn: t.display(), Key: t.lm.Name, Props: t.lm.Props, NClauses: 1, File: shortFile(t.lm.File)}
	}
	fr := &FuncResult{Fn: funcDisplay(t.fn), Key: funcKey(t.fn), Props: t.ct.Props, NClauses: len(t.ct.Requires) + len(t.ct.Ensures)}
	for _, l := range t.ct.Loops {
		fr.NClauses += len(l.Invariants)
		if l.Decreases != nil {
			fr.NClauses++
		}
	}
	if p := t.fn.Pos(); p.IsValid() {
		fr.File = shortFile(eng.fset.Position(p).Filename)
	}
	return fr
}

func (eng *Engine) debugEffects(fn *ssa.Function, depth int, seen map[*ssa.Function]bool) {
	if seen[fn] || depth > 6 {
		return
	}
	seen[fn] = true
	e := eng.effects(fn)
	if !e["*"] {
		return
	}
	fmt.Fprintf(os.Stderr, "%s%s has effect *\n", strings.Repeat("  ", depth), fn)
	for _, b := range fn.Blocks {
		for _, ins := range b.Instrs {
			var c *ssa.CallCommon
			switch x := ins.(type) {
			case *ssa.Call:
				c = &x.Call
			case *ssa.Defer:
				c = &x.Call
			}
			if c == nil {
				continue
			}
			if c.IsInvoke() {
				tmp := map[string]bool{}
				eng.callEffects(c, tmp, fn)
				if tmp["*"] {
					fmt.Fprintf(os.Stderr, "%s  invoke %s.%s -> *\n", strings.Repeat("  ", depth), c.Value.Type(), c.Method.Name())
				}
				continue
			}
			if callee, ok := c.Value.(*ssa.Function); ok {
				eng.debugEffects(callee, depth+1, seen)
			} else if mc, ok := c.Value.(*ssa.MakeClosure); ok {
				eng.debugEffects(mc.Fn.(*ssa.Function), depth+1, seen)
			} else if _, isB := c.Value.(*ssa.Builtin); !isB {
				tmp := map[string]bool{}
				eng.callEffects(c, tmp, fn)
				if tmp["*"] {
					fmt.Fprintf(os.Stderr, "%s  dynamic call %s -> *\n", strings.Repeat("  ", depth), c.Value)
				}
			}
		}
	}
}

func cmdVerify(eng *Engine, name string, dump bool, timeoutMs int, verbose bool) int {
	if os.Getenv("GVC_WHYSTAR") != "" {
		for _, t := range eng.targets() {
			if t.fn != nil && (t.display() == name || strings.HasSuffix(t.display(), name)) {
				eng.debugEffects(t.fn, 0, map[*ssa.Function]bool{})
			}
		}
	}
	if timeoutMs == 0 {
		timeoutMs = 10000
	}
	rc := 0
	found := false
	for _, t := range eng.targets() {
		d := t.display()
		if name != "" && d != name && !strings.HasSuffix(d, "."+name) && (t.fn == nil || funcKey(t.fn) != name) {
			continue
		}
		found = true
		if dump {
			vc, err := eng.build(t)
			if err != nil {
				fmt.Println("ERROR:", err)
				return 1
			}
			fmt.Println(vc.smtText(nil))
			for i, o := range vc.obls {
				fmt.Printf("; OBL %d %s  [%s] %s\n", i, o.Name, o.Pos, o.Src)
			}
			continue
		}
		fr := eng.verifyOne(t, filepath.Join(eng.verifDir, "work", "verify"), timeoutMs, false)
		fmt.Printf("== %s  (gen %.2fs, solve %.2fs) %s\n", fr.Fn, fr.GenTime, fr.SolveTime, fr.SMTFile)
		if fr.Err != "" {
			fmt.Println("   ERROR:", fr.Err)
			rc = 1
		}
		nfail := 0
		for _, o := range fr.Obls {
			ok := o.ok()
			if o.Cover && o.Status == "vacuous" && strings.HasPrefix(o.Key, "ret") {
				ok = true // dead return; only reported by check when every return is dead
			}
			mark := "ok  "
			if !ok {
				mark = "FAIL"
				rc = 1
				nfail++
				if nfail > 12 && !verbose {
					continue
				}
			}
			if verbose || !ok {
				fmt.Printf("   %s %-8s %-7s %5.1fs %s   [%s] %s\n", mark, o.Status, o.Solver, o.Time, o.Name, o.Pos, o.Src)
			}
		}
		n := 0
		for _, o := range fr.Obls {
			if o.ok() {
				n++
			}
		}
		fmt.Printf("   %d/%d obligations ok\n", n, len(fr.Obls))
		if verbose {
			for _, a := range fr.Assumed {
				fmt.Println("   assumes:", a)
			}
			for _, a := range fr.Notes {
				fmt.Println("   note:", a)
			}
		}
	}
	if !found {
		fmt.Println("no such function under contract:", name)
		return 1
	}
	return rc
}

// closedWorldTargets: for every interface contract marked closedworld, every type of the module implementing the
// interface gets its method verified against the interface contract (in addition to its own contract, if any).
// The interface must not be implementable outside its package (an unexported method, or a method mentioning an
// unexported type of the package).
func (eng *Engine) closedWorldTargets(out []target) []target {
	var keys []string
	for k, ct := range eng.cs.Contracts {
		if ct.Kind == "iface" && ct.ClosedWorld {
			keys = append(keys, k)
		}
	}
	sort.Strings(keys)
	for _, k := range keys {
		ict := eng.cs.Contracts[k]
		rest := strings.TrimPrefix(k, "iface::"+ict.Pkg+".")
		dot := strings.LastIndex(rest, ".")
		if dot < 0 {
			eng.cs.Errors = append(eng.cs.Errors, fmt.Sprintf("%s: closedworld: bad key", k))
			continue
		}
		iname, mname := rest[:dot], rest[dot+1:]
		pkg := eng.pkgByPath(ict.Pkg)
		if pkg == nil {
			continue
		}
		o := pkg.Scope().Lookup(iname)
		if o == nil {
			eng.cs.Errors = append(eng.cs.Errors, fmt.Sprintf("%s: closedworld: no such interface", k))
			continue
		}
		it, ok := o.Type().Underlying().(*types.Interface)
		if !ok || !sealedInterface(it, pkg) {
			eng.cs.Errors = append(eng.cs.Errors, fmt.Sprintf("%s: closedworld: the interface can be implemented outside its package", k))
			continue
		}
		for _, p := range eng.prog.AllPackages() {
			if p.Pkg == nil || !strings.HasPrefix(p.Pkg.Path(), modulePath) {
				continue
			}
			names := p.Pkg.Scope().Names()
			for _, n := range names {
				tn, ok := p.Pkg.Scope().Lookup(n).(*types.TypeName)
				if !ok || tn.IsAlias() {
					continue
				}
				if _, isI := tn.Type().Underlying().(*types.Interface); isI {
					continue
				}
				var T types.Type = tn.Type()
				if !types.Implements(T, it) {
					T = types.NewPointer(tn.Type())
					if !types.Implements(T, it) {
						continue
					}
				}
				sel := eng.prog.MethodSets.MethodSet(T).Lookup(pkg, mname)
				if sel == nil {
					continue
				}
				fn := eng.prog.MethodValue(sel)
				if fn == nil || len(fn.Blocks) == 0 {
					continue
				}
				key := ict.Pkg + "::" + funcKey(fn)
				var ct *Contract
				if own := eng.cs.Contracts[key]; own != nil && eng.funcsByKey[key] == fn {
					if own.Implements != "" {
						if own.Trusted {
							eng.trustedImpls = append(eng.trustedImpls, trustedImpl{ict.Props, "implementation " + funcDisplay(fn) + " of interface contract " + rest + " is stated (trusted), not verified"})
						}
						continue // already a target, checked against the interface contract there
					}
					// replace the plain target by one that also checks the interface contract
					cp := *own
					cp.Implements = rest
					ct = &cp
					for i := range out {
						if out[i].fn == fn {
							out = append(out[:i], out[i+1:]...)
							break
						}
					}
				} else {
					ct = &Contract{Kind: "func", Pkg: ict.Pkg, Key: funcKey(fn), Props: ict.Props, Loops: map[int]*LoopSpec{}, Implements: rest, File: ict.File, Line: ict.Line, AtCalls: map[string][]*Clause{}}
				}
				out = append(out, target{fn: fn, ct: ct})
			}
		}
	}
	return out
}

func sealedInterface(it *types.Interface, pkg *types.Package) bool {
	var mentions func(t types.Type, depth int) bool
	mentions = func(t types.Type, depth int) bool {
		if depth > 4 {
			return false
		}
		switch x := t.(type) {
		case *types.Named:
			return x.Obj().Pkg() == pkg && !x.Obj().Exported()
		case *types.Pointer:
			return mentions(x.Elem(), depth+1)
		case *types.Slice:
			return mentions(x.Elem(), depth+1)
		case *types.Tuple:
			for i := 0; i < x.Len(); i++ {
				if mentions(x.At(i).Type(), depth+1) {
					return true
				}
			}
		case *types.Signature:
			return mentions(x.Params(), depth+1) || mentions(x.Results(), depth+1)
		}
		return false
	}
	for i := 0; i < it.NumMethods(); i++ {
		m := it.Method(i)
		if !m.Exported() || mentions(m.Type(), 0) {
			return true
		}
	}
	return false
}
