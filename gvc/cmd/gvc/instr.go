package main

import (
	"fmt"
	"go/token"
	"go/types"
	"strings"

	"golang.org/x/tools/go/ssa"
)

func (f *frame) setVal(v ssa.Value, t types.Type, term string) {
	f.vals[v] = Val{t: f.vc.define(v.Name(), f.vc.sortOf(t), term)}
}

// keyOf builds a stable key for a safety site: the source text of the base operand.
func (f *frame) keyOf(v ssa.Value, pos token.Pos) string {
	line := strings.TrimSpace(f.srcLine(pos))
	name := f.srcName(v)
	if name != "" {
		return name
	}
	if line != "" {
		if len(line) > 40 {
			line = line[:40]
		}
		return sanitize(line)
	}
	return v.Name()
}

// srcName tries to find a source-level name for an SSA value.
func (f *frame) srcName(v ssa.Value) string {
	switch x := v.(type) {
	case *ssa.Parameter:
		return x.Name()
	case *ssa.FreeVar:
		return x.Name()
	case *ssa.Global:
		return x.Name()
	case *ssa.Phi:
		if x.Comment != "" {
			return x.Comment
		}
	case *ssa.UnOp:
		if x.Op == token.MUL {
			return f.srcName(x.X)
		}
	case *ssa.FieldAddr:
		st := deref(x.X.Type()).Underlying().(*types.Struct)
		b := f.srcName(x.X)
		if b == "" {
			b = "_"
		}
		return b + "." + st.Field(x.Field).Name()
	case *ssa.Field:
		st := x.X.Type().Underlying().(*types.Struct)
		b := f.srcName(x.X)
		if b == "" {
			b = "_"
		}
		return b + "." + st.Field(x.Field).Name()
	case *ssa.Alloc:
		if x.Comment != "" {
			return x.Comment
		}
	case *ssa.Slice:
		return f.srcName(x.X)
	case *ssa.Call:
		if fn := x.Call.StaticCallee(); fn != nil {
			return fn.Name() + "()"
		}
	case *ssa.Extract:
		return f.srcName(x.Tuple)
	}
	// debug refs
	if refs := v.Referrers(); refs != nil {
		for _, r := range *refs {
			if d, ok := r.(*ssa.DebugRef); ok && !d.IsAddr {
				if o := d.Object(); o != nil {
					return o.Name()
				}
			}
		}
	}
	return ""
}

func (f *frame) nilCheck(p ssa.Value, pos token.Pos) {
	if _, ok := p.(*ssa.Alloc); ok {
		return
	}
	if _, ok := p.(*ssa.Global); ok {
		return
	}
	if _, ok := p.(*ssa.FieldAddr); ok {
		return
	}
	if _, ok := p.(*ssa.IndexAddr); ok {
		return
	}
	v := f.val(p)
	if v.t == "" {
		return
	}
	f.oblige("safety", "nil:"+f.keyOf(p, pos), nil, not(eq(v.t, "0")), pos)
}

func (f *frame) instr(ins ssa.Instruction) {
	vc := f.vc
	switch x := ins.(type) {
	case *ssa.DebugRef:
	case *ssa.Alloc:
		et := deref(x.Type())
		r := f.allocRef(x.Name())
		if !x.Heap {
			// a local whose address does not escape (go/ssa's own analysis): no callee can write it
			vc.declareOnce("stackobj", "(declare-fun stackobj (Int) Bool)")
			vc.emit(fmt.Sprintf("(assert (stackobj %s))", r))
			vc.hasStack = true
		}
		if _, ok := isStruct(et); ok {
			f.st = f.zeroStruct(r, et, f.st)
		} else if a, ok := et.Underlying().(*types.Array); ok {
			f.zeroArray(r, a.Elem())
		} else {
			f.st = f.storeAt(Val{t: r}, et, vc.zeroOf(et), f.st)
		}
		f.vals[x] = Val{t: r}
	case *ssa.FieldAddr:
		f.nilCheck(x.X, x.Pos())
		base := f.term(x.X)
		st := deref(x.X.Type())
		ft := st.Underlying().(*types.Struct).Field(x.Field).Type()
		if _, ok := isStruct(ft); ok {
			f.vals[x] = Val{t: vc.define(x.Name(), "Int", sx(vc.declSubRef(st, x.Field), base))}
		} else {
			f.vals[x] = Val{addr: &Addr{kind: aField, base: base, st: st, field: x.Field}}
		}
	case *ssa.Field:
		f.setVal(x, x.Type(), sx(vc.structSel(x.X.Type(), x.Field), f.term(x.X)))
	case *ssa.IndexAddr:
		idx := f.term(x.Index)
		et := elemTypeOf(x.X.Type())
		var arr, abs, slT string
		switch u := x.X.Type().Underlying().(type) {
		case *types.Slice:
			s := f.term(x.X)
			slT = s
			f.oblige("safety", "index:"+f.keyOf(x.X, x.Pos()), nil, and(sx("<=", "0", idx), sx("<", idx, sLen(s))), x.Pos())
			arr = sArr(s)
			abs = vc.define("ix", "Int", sx("+", sOff(s), idx))
		case *types.Pointer:
			a := u.Elem().Underlying().(*types.Array)
			f.nilCheck(x.X, x.Pos())
			f.oblige("safety", "index:"+f.keyOf(x.X, x.Pos()), nil, and(sx("<=", "0", idx), sx("<", idx, num(a.Len()))), x.Pos())
			arr = f.term(x.X)
			abs = idx
		default:
			vc.unsupported("IndexAddr on %s", x.X.Type())
		}
		if _, ok := isStruct(et); ok {
			f.vals[x] = Val{t: vc.define(x.Name(), "Int", sx(vc.declElemRef(et), arr, abs))}
		} else {
			f.vals[x] = Val{addr: &Addr{kind: aElem, base: arr, idx: abs, elemT: et, sl: slT, rel: idx}}
		}
	case *ssa.Index:
		idx := f.term(x.Index)
		if isString(x.X.Type()) {
			s := f.term(x.X)
			f.oblige("safety", "index:"+f.keyOf(x.X, x.Pos()), nil, and(sx("<=", "0", idx), sx("<", idx, sx("slen", s))), x.Pos())
			f.setVal(x, x.Type(), sx("sat", s, idx))
			return
		}
		if a, ok := x.X.Type().Underlying().(*types.Array); ok {
			f.oblige("safety", "index:"+f.keyOf(x.X, x.Pos()), nil, and(sx("<=", "0", idx), sx("<", idx, num(a.Len()))), x.Pos())
			f.setVal(x, x.Type(), sx("select", f.term(x.X), idx))
			return
		}
		vc.unsupported("Index on %s", x.X.Type())
	case *ssa.UnOp:
		f.unop(x)
	case *ssa.BinOp:
		f.binop(x)
	case *ssa.Store:
		f.nilCheck(x.Addr, x.Pos())
		t := deref(x.Addr.Type())
		f.st = f.storeAt(f.val(x.Addr), t, f.term(x.Val), f.st)
	case *ssa.Phi:
	case *ssa.Jump, *ssa.If:
	case *ssa.Return:
		var rs []Val
		for _, r := range x.Results {
			rs = append(rs, f.val(r))
		}
		f.rets = append(f.rets, retInfo{R: f.R, results: rs, st: f.st, pos: x.Pos(), blk: x.Block()})
	case *ssa.Panic:
		f.oblige("safety", "panic", nil, "false", x.Pos())
	case *ssa.RunDefers:
		f.runDefers(x)
	case *ssa.Defer:
		f.defers = append(f.defers, deferred{guard: f.R, call: &x.Call, instr: x, blk: x.Block()})
	case *ssa.Go:
		vc.notes = append(vc.notes, "go statement not followed in "+funcDisplay(f.fn)+" ("+f.posStr(x.Pos())+")")
	case *ssa.Call:
		f.call(x, &x.Call, x)
	case *ssa.Extract:
		t := f.val(x.Tuple)
		if len(t.elems) == 0 {
			vc.unsupported("extract from non-tuple %s", x.Tuple.Name())
		}
		f.vals[x] = t.elems[x.Index]
	case *ssa.MakeInterface:
		f.makeInterface(x)
	case *ssa.ChangeInterface:
		f.vals[x] = f.val(x.X)
	case *ssa.ChangeType:
		f.vals[x] = f.val(x.X)
	case *ssa.Convert:
		f.convert(x)
	case *ssa.TypeAssert:
		f.typeAssert(x)
	case *ssa.Slice:
		f.sliceOp(x)
	case *ssa.MakeSlice:
		n := f.term(x.Len)
		c := f.term(x.Cap)
		f.oblige("safety", "makeslice:"+f.keyOf(x, x.Pos()), nil, and(sx("<=", "0", n), sx("<=", n, c)), x.Pos())
		// an allocation beyond the address space does not return (runtime: "len out of range" / out of memory):
		// memory exhaustion is outside the properties; slices are at most 2^48 elements long in the model
		f.assume(sx("<=", c, "281474976710656"))
		vc.assumed["allocations of more than 2^48 elements do not return (memory exhaustion not modelled)"] = true
		arr := f.allocRef("arr")
		et := x.Type().Underlying().(*types.Slice).Elem()
		f.zeroArray(arr, et)
		f.setVal(x, x.Type(), sx("mk-slice", arr, "0", n, c))
	case *ssa.MakeMap:
		r := f.allocRef("map")
		mt := x.Type().Underlying().(*types.Map)
		hh := mapHasHeap(mt)
		hs := "(Array Int (Array " + vc.sortOf(mt.Key()) + " Bool))"
		f.st = vc.store(f.st, hh, hs, sx("store", vc.lookup(f.st, hh, hs), r, fmt.Sprintf("((as const (Array %s Bool)) false)", vc.sortOf(mt.Key()))))
		if canonicalMapElem(mt.Elem()) {
			_, _, hv, hvs := f.mapHeaps(mt)
			f.st = vc.store(f.st, hv, hvs, sx("store", vc.lookup(f.st, hv, hvs), r, fmt.Sprintf("((as const (Array %s %s)) %s)", vc.sortOf(mt.Key()), vc.sortOf(mt.Elem()), vc.zeroOf(mt.Elem()))))
		}
		f.vals[x] = Val{t: r}
	case *ssa.MakeChan:
		r := f.allocRef("chan")
		f.vals[x] = Val{t: r}
	case *ssa.MakeClosure:
		fn := x.Fn.(*ssa.Function)
		var bs []Val
		for _, b := range x.Bindings {
			bs = append(bs, f.val(b))
		}
		id := vc.fresh("closure", "Int")
		f.assume(sx(">", id, "1000000"))
		vc.closures[id] = &closureInfo{fn: fn, bindings: bs}
		f.vals[x] = Val{t: id}
	case *ssa.MapUpdate:
		m := f.term(x.Map)
		mt := x.Map.Type().Underlying().(*types.Map)
		f.oblige("safety", "nilmap:"+f.keyOf(x.Map, x.Pos()), nil, not(eq(m, "0")), x.Pos())
		f.mapStore(m, mt, f.term(x.Key), f.term(x.Value))
	case *ssa.Lookup:
		f.lookupOp(x)
	case *ssa.Range:
		if isString(x.X.Type()) {
			vc.unsupported("range over string")
		}
		// iterator: fresh id with an empty ghost set of produced keys
		mt := x.X.Type().Underlying().(*types.Map)
		ks := vc.sortOf(mt.Key())
		it := f.allocRef("iter")
		hn := "Gh.iter.seen." + sanitize(ks)
		hs := "(Array Int (Array " + ks + " Bool))"
		f.st = vc.store(f.st, hn, hs, sx("store", vc.lookup(f.st, hn, hs), it, fmt.Sprintf("((as const (Array %s Bool)) false)", ks)))
		f.iters[x] = it
		f.vals[x] = Val{t: f.term(x.X)}
	case *ssa.Next:
		f.nextOp(x)
	case *ssa.Send:
		f.sendOp(x)
	case *ssa.Select:
		f.selectOp(x)
	case *ssa.SliceToArrayPointer:
		vc.unsupported("slice to array pointer")
	default:
		vc.unsupported("instruction %T", ins)
	}
}

func (f *frame) mapHeaps(mt *types.Map) (hh, hhs, hv, hvs string) {
	vc := f.vc
	ks := vc.sortOf(mt.Key())
	vs := vc.sortOf(mt.Elem())
	return mapHasHeap(mt), "(Array Int (Array " + ks + " Bool))", mapValHeap(mt), "(Array Int (Array " + ks + " " + vs + "))"
}

func (f *frame) mapStore(m string, mt *types.Map, k, v string) {
	vc := f.vc
	hh, hhs, hv, hvs := f.mapHeaps(mt)
	H := vc.lookup(f.st, hh, hhs)
	V := vc.lookup(f.st, hv, hvs)
	f.st = vc.store(f.st, hh, hhs, sx("store", H, m, sx("store", sx("select", H, m), k, "true")))
	f.st = vc.store(f.st, hv, hvs, sx("store", V, m, sx("store", sx("select", V, m), k, v)))
}

func (f *frame) mapDelete(m string, mt *types.Map, k string) {
	vc := f.vc
	hh, hhs, hv, hvs := f.mapHeaps(mt)
	H := vc.lookup(f.st, hh, hhs)
	f.st = vc.store(f.st, hh, hhs, sx("store", H, m, sx("store", sx("select", H, m), k, "false")))
	// canonical form of the model: the value row holds the zero value at absent keys
	if canonicalMapElem(mt.Elem()) {
		V := vc.lookup(f.st, hv, hvs)
		f.st = vc.store(f.st, hv, hvs, sx("store", V, m, sx("store", sx("select", V, m), k, vc.zeroOf(mt.Elem()))))
	}
}

// canonicalMapElem: element types for which the model keeps "absent key => zero value" in the value heap.
func canonicalMapElem(t types.Type) bool {
	switch u := t.Underlying().(type) {
	case *types.Slice, *types.Pointer, *types.Map, *types.Interface:
		return true
	case *types.Basic:
		return u.Info()&(types.IsInteger|types.IsBoolean|types.IsString) != 0
	}
	return false
}

func (f *frame) mapHas(m string, mt *types.Map, k string, st *hstate) string {
	hh, hhs, _, _ := f.mapHeaps(mt)
	return and(not(eq(m, "0")), sx("select", sx("select", f.vc.lookup(st, hh, hhs), m), k))
}

func (f *frame) mapGet(m string, mt *types.Map, k string, st *hstate) string {
	_, _, hv, hvs := f.mapHeaps(mt)
	return sx("select", sx("select", f.vc.lookup(st, hv, hvs), m), k)
}

func (f *frame) lookupOp(x *ssa.Lookup) {
	vc := f.vc
	if isString(x.X.Type()) {
		s := f.term(x.X)
		idx := f.term(x.Index)
		f.oblige("safety", "index:"+f.keyOf(x.X, x.Pos()), nil, and(sx("<=", "0", idx), sx("<", idx, sx("slen", s))), x.Pos())
		f.setVal(x, x.Type(), sx("sat", s, idx))
		return
	}
	mt := x.X.Type().Underlying().(*types.Map)
	m := f.term(x.X)
	k := f.term(x.Index)
	has := vc.define("has", "Bool", f.mapHas(m, mt, k, f.st))
	raw := f.mapGet(m, mt, k, f.st)
	v := vc.define(x.Name(), vc.sortOf(mt.Elem()), ite(has, raw, vc.zeroOf(mt.Elem())))
	f.assume(implies(has, vc.typeFacts(v, mt.Elem(), f.st)))
	if x.CommaOk {
		f.vals[x] = Val{elems: []Val{{t: v}, {t: has}}}
	} else {
		f.vals[x] = Val{t: v}
	}
}

func (f *frame) nextOp(x *ssa.Next) {
	vc := f.vc
	if x.IsString {
		vc.unsupported("range over string")
	}
	rng := x.Iter.(*ssa.Range)
	mt := rng.X.Type().Underlying().(*types.Map)
	m := f.term(rng.X)
	ok := vc.fresh("next.ok", "Bool")
	ks := vc.sortOf(mt.Key())
	k := vc.fresh("next.k", ks)
	f.assume(vc.typeFacts(k, mt.Key(), f.st))
	f.assume(implies(ok, f.mapHas(m, mt, k, f.st)))
	if it, okIt := f.iters[rng]; okIt {
		hn := "Gh.iter.seen." + sanitize(ks)
		hs := "(Array Int (Array " + ks + " Bool))"
		seen := vc.lookup(f.st, hn, hs)
		// a produced key was not produced before; when the iteration ends every key still in the map was produced
		f.assume(implies(ok, not(sx("select", sx("select", seen, it), k))))
		hh, hhs, _, _ := f.mapHeaps(mt)
		hasRow := sx("select", vc.lookup(f.st, hh, hhs), m)
		if vc.qf == 0 {
			f.assume(implies(not(ok), fmt.Sprintf("(forall ((q!k %s)) (! (=> (select %s q!k) (select (select %s %s) q!k)) :pattern ((select %s q!k))))", ks, hasRow, seen, it, hasRow)))
		}
		f.st = vc.store(f.st, hn, hs, ite(ok, sx("store", seen, it, sx("store", sx("select", seen, it), k, "true")), seen))
	}
	v := vc.define("next.v", vc.sortOf(mt.Elem()), f.mapGet(m, mt, k, f.st))
	f.assume(implies(ok, vc.typeFacts(v, mt.Elem(), f.st)))
	vc.assumed["map iteration: finite, each key of the current map may be produced (order-free); termination of map range loops assumed"] = true
	f.vals[x] = Val{elems: []Val{{t: ok}, {t: k}, {t: v}}}
}

func (f *frame) sendOp(x *ssa.Send) {
	vc := f.vc
	ch := f.term(x.Chan)
	// ghost: closed flag per channel
	cl := vc.lookup(f.st, "Gh.chan.closed", "(Array Int Bool)")
	f.oblige("safety", "send-closed:"+f.keyOf(x.Chan, x.Pos()), nil, not(sx("select", cl, ch)), x.Pos())
	// ghost: number of values sent per channel
	sent := vc.lookup(f.st, "Gh.chan.sent", "(Array Int Int)")
	f.st = vc.store(f.st, "Gh.chan.sent", "(Array Int Int)", sx("store", sent, ch, sx("+", sx("select", sent, ch), "1")))
	vc.assumed["channel send: blocking and scheduling not modelled"] = true
}

func (f *frame) selectOp(x *ssa.Select) {
	vc := f.vc
	// nondeterministic choice among states; result tuple (index, recvOk, r_0..r_n-1)
	idx := vc.fresh("select.idx", "Int")
	lo := "0"
	if !x.Blocking {
		lo = "(- 1)"
	}
	f.assume(and(sx("<=", lo, idx), sx("<", idx, num(int64(len(x.States))))))
	elems := []Val{{t: idx}, {t: vc.fresh("select.ok", "Bool")}}
	for i, s := range x.States {
		if s.Dir == types.SendOnly {
			cl := vc.lookup(f.st, "Gh.chan.closed", "(Array Int Bool)")
			f.obligeAt(and(f.R, eq(idx, num(int64(i)))), "safety", "send-closed:"+f.keyOf(s.Chan, x.Pos()), nil, not(sx("select", cl, f.term(s.Chan))), x.Pos())
			sent := vc.lookup(f.st, "Gh.chan.sent", "(Array Int Int)")
			sc := f.term(s.Chan)
			f.st = vc.store(f.st, "Gh.chan.sent", "(Array Int Int)", ite(eq(idx, num(int64(i))), sx("store", sent, sc, sx("+", sx("select", sent, sc), "1")), sent))
		} else {
			et := s.Chan.Type().Underlying().(*types.Chan).Elem()
			r := vc.fresh("select.recv", vc.sortOf(et))
			f.assume(vc.typeFacts(r, et, f.st))
			elems = append(elems, Val{t: r})
		}
	}
	vc.assumed["select: nondeterministic choice among cases; blocking not modelled"] = true
	f.vals[x] = Val{elems: elems}
}

func (f *frame) unop(x *ssa.UnOp) {
	vc := f.vc
	switch x.Op {
	case token.MUL:
		f.nilCheck(x.X, x.Pos())
		t := x.Type()
		v := vc.define(x.Name(), vc.sortOf(t), f.loadAt(f.val(x.X), t, f.st))
		f.assume(vc.typeFacts(v, t, f.st))
		f.vals[x] = Val{t: v}
		if g, isG := x.X.(*ssa.Global); isG && g.Pkg != nil {
			if im := vc.eng.cs.Immutables[g.Pkg.Pkg.Path()+"::"+g.Name()]; im != nil {
				// declared immutable: its contents are the initial ones at every read (no store to it exists: checked statically)
				if _, isSl := t.Underlying().(*types.Slice); isSl {
					h := vc.lookup(f.st, elemHeapName(types.Typ[types.Byte]), "(Array Int (Array Int Int))")
					cs := []string{eq(sLen(v), num(int64(len(im.Bytes)))), not(eq(sArr(v), "0"))}
					for k := 0; k < len(im.Bytes); k++ {
						cs = append(cs, eq(sx(vc.eltFn("Int"), h, v, num(int64(k))), num(int64(im.Bytes[k]))))
					}
					f.assume(and(cs...))
					vc.assumed["package variable "+g.Name()+" is never modified after initialisation (no store to it in the module: checked; aliasing of its backing array: assumed)"] = true
				}
			}
		}
	case token.SUB:
		if isFloat(x.Type()) {
			f.setVal(x, x.Type(), sx("-", f.term(x.X)))
			return
		}
		ii, _ := intInfoOf(x.Type())
		f.setVal(x, x.Type(), sx(ii.wrapFn(), sx("-", f.term(x.X))))
	case token.NOT:
		f.setVal(x, x.Type(), not(f.term(x.X)))
	case token.XOR:
		ii, _ := intInfoOf(x.Type())
		if ii.signed {
			f.setVal(x, x.Type(), sx("-", sx("-", f.term(x.X)), "1"))
		} else {
			f.setVal(x, x.Type(), sx("-", bigNum(ii.max()), f.term(x.X)))
		}
	case token.ARROW:
		et := x.X.Type().Underlying().(*types.Chan).Elem()
		r := vc.fresh("recv", vc.sortOf(et))
		f.assume(vc.typeFacts(r, et, f.st))
		vc.assumed["channel receive: value unconstrained; blocking not modelled"] = true
		if x.CommaOk {
			f.vals[x] = Val{elems: []Val{{t: r}, {t: vc.fresh("recv.ok", "Bool")}}}
		} else {
			f.vals[x] = Val{t: r}
		}
	default:
		vc.unsupported("unary op %s", x.Op)
	}
}

func (f *frame) binop(x *ssa.BinOp) {
	vc := f.vc
	a, b := f.val(x.X), f.val(x.Y)
	xt := x.X.Type()
	switch x.Op {
	case token.EQL, token.NEQ:
		var e string
		switch {
		case a.t != "" && b.t != "":
			if _, isSl := xt.Underlying().(*types.Slice); isSl {
				// only comparison against nil is legal
				if c, ok := x.Y.(*ssa.Const); ok && c.Value == nil {
					e = eq(sArr(a.t), "0")
				} else {
					e = eq(sArr(b.t), "0")
				}
			} else if isFloat(xt) {
				e = eq(a.t, b.t)
			} else {
				e = eq(a.t, b.t)
			}
		default:
			vc.unsupported("comparison of cell addresses")
		}
		if x.Op == token.NEQ {
			e = not(e)
		}
		f.setVal(x, x.Type(), e)
		return
	case token.LSS, token.LEQ, token.GTR, token.GEQ:
		op := map[token.Token]string{token.LSS: "<", token.LEQ: "<=", token.GTR: ">", token.GEQ: ">="}[x.Op]
		if isString(xt) {
			vc.declareOnce("strless", "(declare-fun strless (Int Int) Bool)")
			var e string
			switch x.Op {
			case token.LSS:
				e = sx("strless", a.t, b.t)
			case token.GTR:
				e = sx("strless", b.t, a.t)
			case token.LEQ:
				e = not(sx("strless", b.t, a.t))
			default:
				e = not(sx("strless", a.t, b.t))
			}
			f.setVal(x, x.Type(), e)
			return
		}
		f.setVal(x, x.Type(), sx(op, a.t, b.t))
		return
	}
	if isString(x.Type()) && x.Op == token.ADD {
		f.setVal(x, x.Type(), sx("strconcat", a.t, b.t))
		return
	}
	if isFloat(x.Type()) {
		op := map[token.Token]string{token.ADD: "+", token.SUB: "-", token.MUL: "*", token.QUO: "/"}[x.Op]
		if op == "" {
			vc.unsupported("float op %s", x.Op)
		}
		vc.assumed["floating point arithmetic treated as real arithmetic"] = true
		f.setVal(x, x.Type(), sx(op, a.t, b.t))
		return
	}
	ii, ok := intInfoOf(x.Type())
	if !ok {
		vc.unsupported("binop %s on %s", x.Op, x.Type())
	}
	w := ii.wrapFn()
	switch x.Op {
	case token.ADD:
		f.setVal(x, x.Type(), sx(w, sx("+", a.t, b.t)))
	case token.SUB:
		f.setVal(x, x.Type(), sx(w, sx("-", a.t, b.t)))
	case token.MUL:
		f.setVal(x, x.Type(), sx(w, sx("*", a.t, b.t)))
	case token.QUO:
		f.oblige("safety", "divzero:"+f.keyOf(x.Y, x.Pos()), nil, not(eq(b.t, "0")), x.Pos())
		f.setVal(x, x.Type(), sx(w, sx("godiv", a.t, b.t)))
	case token.REM:
		f.oblige("safety", "divzero:"+f.keyOf(x.Y, x.Pos()), nil, not(eq(b.t, "0")), x.Pos())
		f.setVal(x, x.Type(), sx("gorem", a.t, b.t))
	case token.AND:
		if c, ok := x.Y.(*ssa.Const); ok {
			if s, ok := constInt(c.Value); ok && isPow2Minus1(s) {
				f.setVal(x, x.Type(), sx("mod", a.t, addOne(s)))
				return
			}
		}
		f.setVal(x, x.Type(), sx("bitand", a.t, b.t))
		f.assume(vc.typeFacts(f.vals[x].t, x.Type(), nil))
	case token.OR:
		f.setVal(x, x.Type(), sx("bitor", a.t, b.t))
		f.assume(vc.typeFacts(f.vals[x].t, x.Type(), nil))
	case token.XOR:
		f.setVal(x, x.Type(), sx("bitxor", a.t, b.t))
		f.assume(vc.typeFacts(f.vals[x].t, x.Type(), nil))
	case token.SHL:
		if c, ok := x.Y.(*ssa.Const); ok {
			if s, ok := constInt(c.Value); ok {
				var k int
				fmt.Sscanf(s, "%d", &k)
				if k >= 0 && k < 64 {
					f.setVal(x, x.Type(), sx(w, sx("*", a.t, pow2(k))))
					return
				}
			}
		}
		f.setVal(x, x.Type(), sx("shl", a.t, b.t))
		f.assume(vc.typeFacts(f.vals[x].t, x.Type(), nil))
	case token.SHR:
		if c, ok := x.Y.(*ssa.Const); ok {
			if s, ok := constInt(c.Value); ok {
				var k int
				fmt.Sscanf(s, "%d", &k)
				if k >= 0 && k < 64 {
					f.setVal(x, x.Type(), sx("div", a.t, pow2(k)))
					return
				}
			}
		}
		f.setVal(x, x.Type(), sx("shr", a.t, b.t))
		f.assume(vc.typeFacts(f.vals[x].t, x.Type(), nil))
	case token.AND_NOT:
		f.setVal(x, x.Type(), sx("bitand", a.t, sx("-", sx("-", b.t), "1")))
		f.assume(vc.typeFacts(f.vals[x].t, x.Type(), nil))
	default:
		vc.unsupported("binop %s", x.Op)
	}
}

func pow2(k int) string {
	s := "1"
	for i := 0; i < k; i++ {
		// decimal doubling via big arithmetic is overkill; use fmt on uint64 where possible
	}
	if k < 63 {
		return fmt.Sprintf("%d", uint64(1)<<uint(k))
	}
	if k == 63 {
		return "9223372036854775808"
	}
	return s
}

func isPow2Minus1(s string) bool {
	var v uint64
	if _, err := fmt.Sscanf(s, "%d", &v); err != nil {
		return false
	}
	return v > 0 && (v&(v+1)) == 0
}

func addOne(s string) string {
	var v uint64
	fmt.Sscanf(s, "%d", &v)
	return fmt.Sprintf("%d", v+1)
}

func (f *frame) makeInterface(x *ssa.MakeInterface) {
	vc := f.vc
	t := x.X.Type()
	tag := vc.typeTag(t)
	if isRefLike(t) {
		f.setVal(x, x.Type(), sx("mk-iface", tag, f.term(x.X)))
		vc.ifaceConcrete[f.vals[x].t] = ifaceInfo{typ: t, val: f.val(x.X)}
		return
	}
	// box the value
	b := f.allocRef("box")
	f.st = f.storeAt(Val{t: b}, t, f.term(x.X), f.st)
	f.setVal(x, x.Type(), sx("mk-iface", tag, b))
	vc.ifaceConcrete[f.vals[x].t] = ifaceInfo{typ: t, val: f.val(x.X)}
}

// implementsPred returns a term saying that the dynamic type of iface value v implements interface type it.
func (f *frame) implementsPred(v string, it types.Type) string {
	vc := f.vc
	name := "impl." + typeKey(it)
	vc.declareOnce(name, fmt.Sprintf("(declare-fun %s (Int) Bool)", name))
	vc.ifaceImpl[typeKey(it)] = true
	return sx(name, sx("i-tag", v))
}

func (f *frame) typeAssert(x *ssa.TypeAssert) {
	vc := f.vc
	v := f.term(x.X)
	at := x.AssertedType
	var ok, res string
	if _, isIface := at.Underlying().(*types.Interface); isIface {
		if types.Implements(x.X.Type(), at.Underlying().(*types.Interface)) {
			ok = not(eq(sx("i-tag", v), "0"))
		} else {
			ok = and(not(eq(sx("i-tag", v), "0")), f.implementsPred(v, at))
		}
		res = v
	} else {
		tag := vc.typeTag(at)
		ok = eq(sx("i-tag", v), tag)
		if isRefLike(at) {
			res = sx("i-val", v)
		} else {
			res = f.loadAt(Val{t: sx("i-val", v)}, at, f.st)
		}
	}
	okd := vc.define("ta.ok", "Bool", ok)
	if _, isIface := at.Underlying().(*types.Interface); !isIface && !isRefLike(at) {
		// a value of a non-pointer type lives in a box: a real (positive, allocated) object of the model
		al := vc.lookup(f.st, "alloc", allocSort)
		f.assume(implies(okd, and(sx(">", sx("i-val", v), "0"), sx("select", al, sx("i-val", v)))))
		vc.assumed["interface values of non-pointer dynamic type hold an allocated box (model invariant)"] = true
	}
	if x.CommaOk {
		r := vc.define(x.Name(), vc.sortOf(at), ite(okd, res, vc.zeroOf(at)))
		f.assume(vc.typeFacts(r, at, f.st))
		f.vals[x] = Val{elems: []Val{{t: r}, {t: okd}}}
		return
	}
	f.oblige("safety", "typeassert:"+f.keyOf(x.X, x.Pos()), nil, okd, x.Pos())
	r := vc.define(x.Name(), vc.sortOf(at), res)
	f.assume(vc.typeFacts(r, at, f.st))
	f.vals[x] = Val{t: r}
}

func (f *frame) convert(x *ssa.Convert) {
	vc := f.vc
	from, to := x.X.Type(), x.Type()
	fi, fok := intInfoOf(from)
	ti, tok := intInfoOf(to)
	switch {
	case fok && tok:
		v := f.term(x.X)
		if (fi.signed == ti.signed && fi.bits <= ti.bits) || (!fi.signed && ti.signed && fi.bits < ti.bits) {
			f.vals[x] = Val{t: v}
		} else {
			f.setVal(x, to, sx(ti.wrapFn(), v))
		}
	case isString(to) && fok:
		// string(rune)
		s := vc.fresh("str", "Int")
		f.vals[x] = Val{t: s}
	case isString(to):
		if sl, ok := from.Underlying().(*types.Slice); ok {
			b := f.term(x.X)
			h := vc.lookup(f.st, elemHeapName(sl.Elem()), "(Array Int (Array Int Int))")
			s := vc.define("str", "Int", f.bytesToString(h, b))
			f.vals[x] = Val{t: s}
			return
		}
		f.vals[x] = f.val(x.X)
	case isString(from):
		if sl, ok := to.Underlying().(*types.Slice); ok {
			s := f.term(x.X)
			arr := f.allocRef("arr")
			et := sl.Elem()
			hn := elemHeapName(et)
			hs := "(Array Int (Array Int Int))"
			h := vc.lookup(f.st, hn, hs)
			row := vc.fresh("row", "(Array Int Int)")
			vc.rowAxiom(row, func(i string) string { return sx("sat", s, i) })
			f.st = vc.store(f.st, hn, hs, sx("store", h, arr, row))
			f.setVal(x, to, sx("mk-slice", arr, "0", sx("slen", s), sx("slen", s)))
			if et.Underlying().(*types.Basic).Kind() == types.Uint8 {
				// string([]byte(s)) == s
				vc.b2s("h", "d")
				f.assume(eq(sx("b2sr", row, "0", sx("slen", s)), s))
			}
			return
		}
		f.vals[x] = f.val(x.X)
	case isFloat(to) && fok:
		f.setVal(x, to, sx("to_real", f.term(x.X)))
	case isFloat(to) && isFloat(from):
		f.vals[x] = f.val(x.X)
	case tok && isFloat(from):
		v := vc.fresh("f2i", "Int")
		f.assume(vc.typeFacts(v, to, nil))
		vc.assumed["float to int conversion result unconstrained"] = true
		f.vals[x] = Val{t: v}
	default:
		if vc.sortOf(from) == vc.sortOf(to) {
			f.vals[x] = f.val(x.X)
			return
		}
		vc.unsupported("conversion %s -> %s", from, to)
	}
}

// bytesToString: the string holding the current contents of byte slice b (a function of heap and slice, so
// that code and specifications denote the same string by the same term).
func (f *frame) bytesToString(h, b string) string {
	return f.vc.b2s(h, b)
}

func (vc *VC) b2s(h, b string) string {
	if !vc.declared["b2s"] {
		vc.declared["b2s"] = true
		// the string is a function of the array's row, the offset and the length only: equal rows give equal strings
		vc.emit("(declare-fun b2sr ((Array Int Int) Int Int) Int)")
		vc.emit("(define-fun b2s ((h (Array Int (Array Int Int))) (d Slice)) Int (b2sr (select h (s-arr d)) (s-off d) (s-len d)))")
		vc.emit("(assert (forall ((r (Array Int Int)) (o Int) (n Int)) (! (=> (>= n 0) (= (slen (b2sr r o n)) n)) :pattern ((b2sr r o n)))))")
		vc.emit("(assert (forall ((r (Array Int Int)) (o Int) (n Int) (i Int)) (! (=> (and (<= 0 i) (< i n)) (= (sat (b2sr r o n) i) (select r (+ o i)))) :pattern ((sat (b2sr r o n) i)))))")
	}
	t := sx("b2s", h, b)
	if vc.qf > 0 && h != "h" {
		key := "b2s:" + t
		if !vc.declared[key] {
			vc.declared[key] = true
			vc.out = append(vc.out, fmt.Sprintf("(assert (= (slen %s) (s-len %s)))", t, b))
			for k := 0; k < vc.qf+2; k++ {
				vc.out = append(vc.out, fmt.Sprintf("(assert (=> (< %d (s-len %s)) (= (sat %s %d) (select (select %s (s-arr %s)) (+ (s-off %s) %d)))))", k, b, t, k, h, b, b, k))
			}
		}
	}
	return t
}

func (f *frame) sliceOp(x *ssa.Slice) {
	vc := f.vc
	xt := x.X.Type()
	get := func(v ssa.Value, def string) string {
		if v == nil {
			return def
		}
		return f.term(v)
	}
	switch u := xt.Underlying().(type) {
	case *types.Slice:
		s := f.term(x.X)
		lo := get(x.Low, "0")
		hi := get(x.High, sLen(s))
		mx := get(x.Max, sCap(s))
		f.oblige("safety", "slice:"+f.keyOf(x.X, x.Pos()), nil, and(sx("<=", "0", lo), sx("<=", lo, hi), sx("<=", hi, mx), sx("<=", mx, sCap(s))), x.Pos())
		f.setVal(x, x.Type(), sx("mk-slice", sArr(s), sx("+", sOff(s), lo), sx("-", hi, lo), sx("-", mx, lo)))
	case *types.Basic: // string
		s := f.term(x.X)
		lo := get(x.Low, "0")
		hi := get(x.High, sx("slen", s))
		f.oblige("safety", "slice:"+f.keyOf(x.X, x.Pos()), nil, and(sx("<=", "0", lo), sx("<=", lo, hi), sx("<=", hi, sx("slen", s))), x.Pos())
		r := vc.fresh("substr", "Int")
		f.assume(eq(sx("slen", r), sx("-", hi, lo)))
		f.assume(vc.define("substr", "Bool", vc.quantIdx(
			func(i string) string { return fmt.Sprintf("(and (<= 0 %s) (< %s (- %s %s)))", i, i, hi, lo) },
			func(i string) string { return fmt.Sprintf("(= (sat %s %s) (sat %s (+ %s %s)))", r, i, s, lo, i) },
			func(i string) string { return fmt.Sprintf("(sat %s %s)", r, i) })))
		f.vals[x] = Val{t: r}
	case *types.Pointer:
		a := u.Elem().Underlying().(*types.Array)
		f.nilCheck(x.X, x.Pos())
		r := f.term(x.X)
		n := num(a.Len())
		lo := get(x.Low, "0")
		hi := get(x.High, n)
		mx := get(x.Max, n)
		f.oblige("safety", "slice:"+f.keyOf(x.X, x.Pos()), nil, and(sx("<=", "0", lo), sx("<=", lo, hi), sx("<=", hi, mx), sx("<=", mx, n)), x.Pos())
		f.setVal(x, x.Type(), sx("mk-slice", r, lo, sx("-", hi, lo), sx("-", mx, lo)))
	default:
		vc.unsupported("slice of %s", xt)
	}
}

func (f *frame) runDefers(x *ssa.RunDefers) {
	for i := len(f.defers) - 1; i >= 0; i-- {
		d := f.defers[i]
		if d.blk.Dominates(x.Block()) {
			f.call(nil, d.call, d.instr)
			continue
		}
		// conditional defer: run under guard and join
		before := f.st
		Rb := f.R
		f.R = f.vc.define("R.defer", "Bool", and(Rb, d.guard))
		f.call(nil, d.call, d.instr)
		after := f.st
		Ra := f.R
		skip := and(Rb, not(d.guard))
		f.st = f.vc.join([]hjoin{{Ra, after}, {skip, before}})
		f.R = f.vc.define("R.defer.j", "Bool", or(Ra, skip))
	}
}
